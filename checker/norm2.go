package main

// Statement-level inlining of multi-statement helpers.
//
// The x/tools inliner reduces a call to statements only when the callee is an expression or has
// no early return; otherwise it wraps the body in a function literal that is called in place,
// which keeps the helper's code out of sight of intra-procedural rules (and moves the variables
// it captures to the heap).  For calls that form a whole statement
//
//	f(a)            x, y := f(a)          x = f(a)          return f(a)
//	if f(a) { … }   if !f(a) { … }        (no init statement)
//
// this file performs the classical transformation instead:
//
//	var x T; var y U                  // only for names newly declared by :=
//	{
//	    p__i1 := (P)(a)               // parameters, evaluated once, left to right
//	    var r__i1 T; var s__i1 U      // results
//	inl__1:
//	    for {
//	        …body, every local renamed with the suffix, `return e, g` → `{ r__i1, s__i1 = e, g; break inl__1 }`…
//	        break inl__1
//	    }
//	    x, y = r__i1, s__i1
//	}
//
// Every identifier declared in the callee is renamed with a suffix that cannot occur in the
// caller, identifiers that denote package-level objects are checked not to be shadowed at the call,
// and imports used by the body are added to the caller's file when missing.  Anything outside
// this fragment (defer, recover, labels, goto, variadic or generic callees, embedded receivers,
// impure left-hand sides) is declined and left to the x/tools inliner.

import (
	"bytes"
	"fmt"
	"go/ast"
	"go/token"
	"go/types"
	"sort"
	"strings"

	"golang.org/x/tools/go/packages"
)

type textEdit struct {
	s, e int
	t    string
}

func applyTextEdits(src []byte, eds []textEdit) []byte {
	sort.SliceStable(eds, func(i, j int) bool {
		if eds[i].s != eds[j].s {
			return eds[i].s > eds[j].s
		}
		return eds[i].e > eds[j].e
	})
	out := append([]byte(nil), src...)
	for _, e := range eds {
		out = append(out[:e.s], append([]byte(e.t), out[e.e:]...)...)
	}
	return out
}

var inlCounter int

// stmtInline returns the new content of the caller's file, or an error explaining why the call is
// outside the supported fragment.
func stmtInline(cpkg *packages.Package, cfile *ast.File, call *ast.CallExpr, ccontent []byte,
	hpkg *packages.Package, hdecl *ast.FuncDecl, hcontent []byte) ([]byte, error) {
	hfn := hpkg.TypesInfo.Defs[hdecl.Name].(*types.Func)
	sig := hfn.Type().(*types.Signature)
	if sig.TypeParams().Len() > 0 {
		// the instantiation at this call
		var id *ast.Ident
		fun := ast.Unparen(call.Fun)
		if ix, ok := fun.(*ast.IndexExpr); ok {
			fun = ix.X
		} else if ix, ok := fun.(*ast.IndexListExpr); ok {
			fun = ix.X
		}
		switch x := fun.(type) {
		case *ast.Ident:
			id = x
		case *ast.SelectorExpr:
			id = x.Sel
		}
		if id == nil {
			return nil, fmt.Errorf("generic callee reached through an expression")
		}
		inst, ok := cpkg.TypesInfo.Instances[id]
		if !ok || inst.TypeArgs.Len() != sig.TypeParams().Len() {
			return nil, fmt.Errorf("no instantiation recorded for the generic callee")
		}
		isig, ok := inst.Type.(*types.Signature)
		if !ok {
			return nil, fmt.Errorf("instantiated callee is not a function")
		}
		typeArgs = map[*types.TypeName]types.Type{}
		for i := 0; i < sig.TypeParams().Len(); i++ {
			if _, stillParam := inst.TypeArgs.At(i).(*types.TypeParam); stillParam {
				typeArgs = nil
				return nil, fmt.Errorf("instantiated with a type parameter of the caller")
			}
			typeArgs[sig.TypeParams().At(i).Obj()] = inst.TypeArgs.At(i)
		}
		defer func() { typeArgs = nil }()
		sig = isig
	}
	return stmtInlineSig(cpkg, cfile, call, ccontent, hpkg, hdecl, hcontent, sig)
}

// typeArgs: for a generic callee, the type argument each type parameter is instantiated with at
// the call being inlined (set by stmtInline for the duration of the call).
var typeArgs map[*types.TypeName]types.Type

// stmtInlineSig: hdecl may be synthesised from a function literal (no name, no receiver); sig is
// the callee's signature.
func stmtInlineSig(cpkg *packages.Package, cfile *ast.File, call *ast.CallExpr, ccontent []byte,
	hpkg *packages.Package, hdecl *ast.FuncDecl, hcontent []byte, sig *types.Signature) ([]byte, error) {

	if cpkg.Types != hpkg.Types {
		return nil, fmt.Errorf("callee in another package")
	}
	fset := cpkg.Fset
	cinfo, hinfo := cpkg.TypesInfo, hpkg.TypesInfo
	if sig.Variadic() || (sig.TypeParams().Len() > 0 && typeArgs == nil) || sig.RecvTypeParams().Len() > 0 {
		return nil, fmt.Errorf("variadic or generic callee")
	}
	if call.Ellipsis.IsValid() {
		return nil, fmt.Errorf("spread call")
	}
	// ---- the statement that contains the call ----
	path := enclosingPath(cfile, call)
	if len(path) < 2 {
		return nil, fmt.Errorf("call not found in file")
	}
	type ctxKind int
	const (
		ctxExpr ctxKind = iota
		ctxAssign
		ctxReturn
		ctxIfCond
	)
	var kind ctxKind
	var stmt ast.Stmt
	var assign *ast.AssignStmt
	var ifs *ast.IfStmt
	negate := false
	parent := path[1]
	switch p := parent.(type) {
	case *ast.ExprStmt:
		kind, stmt = ctxExpr, p
	case *ast.AssignStmt:
		if len(p.Rhs) != 1 || p.Rhs[0] != ast.Expr(call) || (p.Tok != token.DEFINE && p.Tok != token.ASSIGN) {
			return nil, fmt.Errorf("call is not the whole right-hand side")
		}
		kind, stmt, assign = ctxAssign, p, p
	case *ast.ReturnStmt:
		if len(p.Results) != 1 {
			return nil, fmt.Errorf("call is one of several returned expressions")
		}
		kind, stmt = ctxReturn, p
	case *ast.IfStmt:
		if p.Cond != ast.Expr(call) || p.Init != nil {
			return nil, fmt.Errorf("call in an if statement with init")
		}
		kind, stmt, ifs = ctxIfCond, p, p
	case *ast.UnaryExpr:
		if p.Op == token.NOT && len(path) >= 3 {
			if i, ok := path[2].(*ast.IfStmt); ok && i.Cond == ast.Expr(p) && i.Init == nil {
				kind, stmt, ifs, negate = ctxIfCond, i, i, true
				break
			}
		}
		return nil, fmt.Errorf("call inside an expression")
	default:
		return nil, fmt.Errorf("call inside an expression (%T)", parent)
	}
	// the statement must be directly inside a block / case clause (so that it can be replaced by several statements)
	var holder ast.Node
	for i, n := range path {
		if n == ast.Node(stmt) && i+1 < len(path) {
			holder = path[i+1]
		}
	}
	// initOf: the statement is the init clause of this if/switch statement, which itself stands in a block:
	// "if x := f(a); cond {...}" is rewritten to "{ x := f(a); if cond {...} }" (same scope for x)
	var initOf ast.Stmt
	var initNext token.Pos // where the rest of the header starts (condition / tag / opening brace)
	switch h := holder.(type) {
	case *ast.BlockStmt, *ast.CaseClause, *ast.CommClause:
		_ = h
	case *ast.IfStmt, *ast.SwitchStmt, *ast.TypeSwitchStmt:
		var init ast.Stmt
		switch hh := h.(type) {
		case *ast.IfStmt:
			init, initNext = hh.Init, hh.Cond.Pos()
		case *ast.SwitchStmt:
			init = hh.Init
			if hh.Tag != nil {
				initNext = hh.Tag.Pos()
			} else {
				initNext = hh.Body.Pos()
			}
		case *ast.TypeSwitchStmt:
			init, initNext = hh.Init, hh.Assign.Pos()
		}
		if init == nil || init != stmt {
			// "else if f(x)": cannot prepend statements
			return nil, fmt.Errorf("statement is an else-if")
		}
		var outer ast.Node
		for i, n := range path {
			if n == holder && i+1 < len(path) {
				outer = path[i+1]
			}
		}
		switch outer.(type) {
		case *ast.BlockStmt, *ast.CaseClause, *ast.CommClause:
		default:
			return nil, fmt.Errorf("init clause of a nested else-if")
		}
		if kind != ctxAssign {
			return nil, fmt.Errorf("init clause that is not an assignment")
		}
		initOf = h.(ast.Stmt)
	default:
		return nil, fmt.Errorf("statement is not in a block (%T)", holder)
	}
	if _, isLabeled := holder.(*ast.LabeledStmt); isLabeled {
		return nil, fmt.Errorf("labelled statement")
	}
	if kind == ctxIfCond && sig.Results().Len() != 1 {
		return nil, fmt.Errorf("condition call with %d results", sig.Results().Len())
	}
	// ---- callee body restrictions ----
	var bad string
	retDepth := 0
	var returns []*ast.ReturnStmt
	var defers []*ast.DeferStmt
	var inspect func(n ast.Node) bool
	inspect = func(n ast.Node) bool {
		switch x := n.(type) {
		case *ast.FuncLit:
			retDepth++
			ast.Inspect(x.Body, inspect)
			retDepth--
			return false
		case *ast.DeferStmt:
			if retDepth == 0 {
				defers = append(defers, x)
			}
		case *ast.BranchStmt:
			if x.Tok == token.GOTO {
				bad = "goto"
			}
		case *ast.CallExpr:
			if id, ok := x.Fun.(*ast.Ident); ok && id.Name == "recover" {
				bad = "recover"
			}
		case *ast.ReturnStmt:
			if retDepth == 0 {
				returns = append(returns, x)
			}
		}
		return true
	}
	ast.Inspect(hdecl.Body, inspect)
	if bad != "" {
		return nil, fmt.Errorf("callee uses %s", bad)
	}
	// defer: supported when every defer statement stands directly in the callee's body before the
	// first return (so it is registered on every path that reaches an exit), the deferred call has
	// no arguments and its receiver is a selector path rooted in a parameter/receiver that the callee
	// never re-assigns (or it is a function literal called without arguments), and the results are not
	// named.  The deferred calls then run, in reverse order, where the body is left.  (Their running
	// during a panic is not modelled; no rule of this checker is about panicking executions.)
	if len(defers) > 0 {
		lastDefer := token.NoPos
		for _, d := range defers {
			top := false
			for _, st := range hdecl.Body.List {
				if st == ast.Stmt(d) {
					top = true
				}
			}
			if !top {
				return nil, fmt.Errorf("callee uses defer inside a nested statement")
			}
			if len(d.Call.Args) != 0 {
				return nil, fmt.Errorf("callee defers a call with arguments")
			}
			switch f := ast.Unparen(d.Call.Fun).(type) {
			case *ast.FuncLit:
			case *ast.SelectorExpr:
				root := ast.Expr(f)
				for {
					if se, ok := ast.Unparen(root).(*ast.SelectorExpr); ok {
						root = se.X
						continue
					}
					break
				}
				id, ok := ast.Unparen(root).(*ast.Ident)
				if !ok {
					return nil, fmt.Errorf("callee defers a call on a computed receiver")
				}
				if obj := hinfo.Uses[id]; obj == nil || !neverReassigned(hinfo, hdecl, obj) {
					if _, isPkg := hinfo.Uses[id].(*types.PkgName); !isPkg {
						return nil, fmt.Errorf("callee defers a call on a receiver that may change")
					}
				}
			default:
				return nil, fmt.Errorf("callee defers a computed function")
			}
			if d.End() > lastDefer {
				lastDefer = d.End()
			}
		}
		for _, r := range returns {
			if r.Pos() < lastDefer {
				return nil, fmt.Errorf("callee returns before a defer statement")
			}
		}
		if hdecl.Type.Results != nil {
			for _, f := range hdecl.Type.Results.List {
				if len(f.Names) > 0 {
					return nil, fmt.Errorf("callee with defer and named results")
				}
			}
		}
	}
	inlCounter++
	suffix := fmt.Sprintf("__i%d", inlCounter)
	label := fmt.Sprintf("inl__%d", inlCounter)

	// ---- qualifier for printing types in the caller's file; imports needed by the body ----
	cscope := cinfo.Scopes[cfile]
	if cscope == nil {
		return nil, fmt.Errorf("no file scope")
	}
	importName := map[string]string{} // path -> local name in the caller's file
	for _, imp := range cfile.Imports {
		var pn *types.PkgName
		if imp.Name != nil {
			pn, _ = cinfo.Defs[imp.Name].(*types.PkgName)
		} else {
			pn, _ = cinfo.Implicits[imp].(*types.PkgName)
		}
		if pn != nil {
			importName[pn.Imported().Path()] = pn.Name()
		}
	}
	var addImports []string
	needImport := func(pkg *types.Package, wantName string) (string, error) {
		if n, ok := importName[pkg.Path()]; ok {
			if n == "." || n == "_" {
				return "", fmt.Errorf("dot or blank import of %s", pkg.Path())
			}
			if wantName != "" && wantName != n {
				return "", fmt.Errorf("package %s is imported as %s in the caller's file and as %s in the callee's", pkg.Path(), n, wantName)
			}
			return n, nil
		}
		n := wantName
		if n == "" {
			n = pkg.Name()
		}
		if obj := cscope.Lookup(n); obj != nil {
			return "", fmt.Errorf("name %s is taken in the caller's file", n)
		}
		if obj := cpkg.Types.Scope().Lookup(n); obj != nil {
			return "", fmt.Errorf("name %s is a package-level object", n)
		}
		importName[pkg.Path()] = n
		addImports = append(addImports, fmt.Sprintf("import %s %q", n, pkg.Path()))
		return n, nil
	}
	var qerr error
	qual := func(p *types.Package) string {
		if p == cpkg.Types {
			return ""
		}
		n, err := needImport(p, "")
		if err != nil && qerr == nil {
			qerr = err
		}
		return n
	}
	typeStr := func(t types.Type) string { return types.TypeString(t, qual) }

	// ---- renaming of every object declared inside the callee; capture checks ----
	hbase := fset.File(hdecl.Pos()).Offset(hdecl.Body.Lbrace) + 1
	hend := fset.File(hdecl.Pos()).Offset(hdecl.Body.Rbrace)
	off := func(p token.Pos) int { return fset.File(hdecl.Pos()).Offset(p) - hbase }
	var eds []textEdit
	local := func(obj types.Object) bool {
		if obj == nil || obj.Pkg() == nil {
			return false
		}
		return obj.Pos() >= hdecl.Pos() && obj.Pos() <= hdecl.End() && obj.Parent() != hpkg.Types.Scope()
	}
	callPos := call.Pos()
	innermost := cpkg.Types.Scope().Innermost(callPos)
	if innermost == nil {
		innermost = cscope
	}
	// a receiver / parameter whose argument is a plain local variable that never changes, and that the helper
	// never assigns, is not copied into a fresh variable: the helper's name for it is replaced by the caller's
	// (same value throughout; it keeps "v.f" a field selection of the caller's own variable)
	direct := map[types.Object]string{}
	{
		var callerDecl *ast.FuncDecl
		for _, nd := range path {
			if fd, ok := nd.(*ast.FuncDecl); ok {
				callerDecl = fd
			}
		}
		consider := func(hIdent *ast.Ident, arg ast.Expr, want types.Type) {
			if hIdent == nil || hIdent.Name == "_" || callerDecl == nil {
				return
			}
			hobj := hinfo.Defs[hIdent]
			if hobj == nil {
				return
			}
			// p *T bound to &x (x a local struct variable) and used only as p.f in the helper: p.f is x.f
			if u, isU := ast.Unparen(arg).(*ast.UnaryExpr); isU && u.Op == token.AND {
				xid, ok := ast.Unparen(u.X).(*ast.Ident)
				if !ok {
					return
				}
				cobj, ok := cinfo.Uses[xid].(*types.Var)
				if !ok || cobj.IsField() || cobj.Parent() == nil || cobj.Parent() == cpkg.Types.Scope() {
					return
				}
				pt, ok := want.Underlying().(*types.Pointer)
				if !ok || !types.Identical(pt.Elem(), cinfo.TypeOf(xid)) {
					return
				}
				if _, isStruct := pt.Elem().Underlying().(*types.Struct); !isStruct {
					return
				}
				onlyFields := true
				var stack []ast.Node
				ast.Inspect(hdecl.Body, func(m ast.Node) bool {
					if m == nil {
						stack = stack[:len(stack)-1]
						return true
					}
					stack = append(stack, m)
					uid, isId := m.(*ast.Ident)
					if !isId || hinfo.Uses[uid] != hobj {
						return true
					}
					if len(stack) < 2 {
						onlyFields = false
						return true
					}
					sel, isSel := stack[len(stack)-2].(*ast.SelectorExpr)
					if !isSel || sel.X != ast.Expr(uid) {
						onlyFields = false
						return true
					}
					if s := hinfo.Selections[sel]; s == nil || s.Kind() != types.FieldVal {
						onlyFields = false
					}
					return true
				})
				if onlyFields {
					direct[hobj] = xid.Name
				}
				return
			}
			aid, ok := ast.Unparen(arg).(*ast.Ident)
			if !ok {
				return
			}
			cobj, ok := cinfo.Uses[aid].(*types.Var)
			if !ok || cobj.IsField() || cobj.Parent() == nil || cobj.Parent() == cpkg.Types.Scope() {
				return
			}
			if !types.Identical(cinfo.TypeOf(aid), want) {
				return
			}
			if !neverReassigned(cinfo, callerDecl, cobj) || !neverReassigned(hinfo, hdecl, hobj) {
				return
			}
			// a struct or array passed by value is a copy: sharing the caller's variable is only the same when
			// neither side ever changes any part of it
			switch want.Underlying().(type) {
			case *types.Struct, *types.Array:
				if !neverMutated(hinfo, hdecl, hobj) || !neverMutated(cinfo, callerDecl, cobj) {
					return
				}
			}
			direct[hobj] = aid.Name
		}
		if recv := sig.Recv(); recv != nil && hdecl.Recv != nil && len(hdecl.Recv.List) == 1 && len(hdecl.Recv.List[0].Names) == 1 {
			if sel, ok := call.Fun.(*ast.SelectorExpr); ok {
				consider(hdecl.Recv.List[0].Names[0], sel.X, recv.Type())
			}
		}
		pi := 0
		for _, f := range hdecl.Type.Params.List {
			if len(f.Names) == 0 {
				pi++
				continue
			}
			for _, nm := range f.Names {
				if pi < len(call.Args) && !sig.Variadic() {
					consider(nm, call.Args[pi], sig.Params().At(pi).Type())
				}
				pi++
			}
		}
	}
	var capErr error
	ast.Inspect(hdecl.Body, func(n ast.Node) bool {
		switch x := n.(type) {
		case *ast.SelectorExpr:
			// x.Sel is resolved through the type of x.X: only the left side can be captured
			ast.Inspect(x.X, func(m ast.Node) bool { return true })
		case *ast.KeyValueExpr:
			// struct literal keys are field names
		case *ast.TypeSwitchStmt:
			// "switch v := x.(type)": v has no object of its own (one implicit object per clause)
			if as, ok := x.Assign.(*ast.AssignStmt); ok && len(as.Lhs) == 1 {
				if id, ok := as.Lhs[0].(*ast.Ident); ok && id.Name != "_" {
					eds = append(eds, textEdit{off(id.Pos()), off(id.End()), id.Name + suffix})
				}
			}
		case *ast.Ident:
			obj := hinfo.Uses[x]
			if obj == nil {
				obj = hinfo.Defs[x]
			}
			if obj == nil || x.Name == "_" {
				return true
			}
			if _, isField := obj.(*types.Var); isField && obj.(*types.Var).IsField() {
				return true
			}
			if tn, isTN := obj.(*types.TypeName); isTN && typeArgs != nil {
				if ta, ok := typeArgs[tn]; ok {
					eds = append(eds, textEdit{off(x.Pos()), off(x.End()), "(" + typeStr(ta) + ")"})
					return true
				}
			}
			if dn, ok := direct[obj]; ok {
				eds = append(eds, textEdit{off(x.Pos()), off(x.End()), dn})
				return true
			}
			if local(obj) {
				eds = append(eds, textEdit{off(x.Pos()), off(x.End()), x.Name + suffix})
				return true
			}
			switch o := obj.(type) {
			case *types.PkgName:
				if _, err := needImport(o.Imported(), o.Name()); err != nil && capErr == nil {
					capErr = err
				}
				if _, got := innermost.LookupParent(o.Name(), callPos); got != nil {
					if pn, ok := got.(*types.PkgName); !ok || pn.Imported() != o.Imported() {
						capErr = fmt.Errorf("package name %s is shadowed at the call", o.Name())
					}
				}
			default:
				// package-level or universe object: must denote the same thing at the call
				if obj.Parent() == hpkg.Types.Scope() || obj.Parent() == types.Universe {
					if _, got := innermost.LookupParent(x.Name, callPos); got != obj && capErr == nil {
						capErr = fmt.Errorf("identifier %s is shadowed at the call", x.Name)
					}
				} else if _, isLabel := obj.(*types.Label); !isLabel && obj.Pkg() == hpkg.Types && obj.Parent() != nil {
					// a variable of the function enclosing a literal: the same object must be visible at the call
					if _, got := innermost.LookupParent(x.Name, callPos); got != obj && capErr == nil {
						capErr = fmt.Errorf("captured identifier %s is not the same object at the call", x.Name)
					}
				}
			}
		}
		return true
	})
	if capErr != nil {
		return nil, capErr
	}
	// ---- parameters, receiver, results ----
	type binding struct{ name, typ, arg string }
	var binds []binding
	srcOf := func(n ast.Node) string {
		tf := fset.File(n.Pos())
		return string(ccontent[tf.Offset(n.Pos()):tf.Offset(n.End())])
	}
	if recv := sig.Recv(); recv != nil {
		sel, ok := call.Fun.(*ast.SelectorExpr)
		if !ok {
			return nil, fmt.Errorf("method called through a value")
		}
		s := cinfo.Selections[sel]
		if s == nil || len(s.Index()) != 1 {
			return nil, fmt.Errorf("promoted method")
		}
		argT := cinfo.TypeOf(sel.X)
		rname := "recv"
		if len(hdecl.Recv.List) == 1 && len(hdecl.Recv.List[0].Names) == 1 && hdecl.Recv.List[0].Names[0].Name != "_" {
			rname = hdecl.Recv.List[0].Names[0].Name
		}
		arg := srcOf(sel.X)
		switch {
		case types.Identical(argT, recv.Type()):
		case types.Identical(types.NewPointer(argT), recv.Type()):
			arg = "&" + arg
		default:
			if pt, ok := argT.Underlying().(*types.Pointer); ok && types.Identical(pt.Elem(), recv.Type()) {
				arg = "*" + arg
			} else {
				return nil, fmt.Errorf("receiver conversion")
			}
		}
		if _, isDirect := direct[hinfo.Defs[hdecl.Recv.List[0].Names[0]]]; !(len(hdecl.Recv.List) == 1 && len(hdecl.Recv.List[0].Names) == 1 && isDirect) {
			binds = append(binds, binding{rname + suffix, typeStr(recv.Type()), arg})
		}
	}
	pi := 0
	for _, f := range hdecl.Type.Params.List {
		names := f.Names
		if len(names) == 0 {
			names = []*ast.Ident{{Name: "_"}}
		}
		for _, nm := range names {
			if pi >= len(call.Args) {
				return nil, fmt.Errorf("argument count")
			}
			n := nm.Name
			if n == "_" {
				n = fmt.Sprintf("unused%d", pi)
			}
			if _, isDirect := direct[hinfo.Defs[nm]]; !isDirect || nm.Name == "_" {
				binds = append(binds, binding{n + suffix, typeStr(sig.Params().At(pi).Type()), srcOf(call.Args[pi])})
			}
			pi++
		}
	}
	if pi != len(call.Args) {
		return nil, fmt.Errorf("argument count (multi-value argument)")
	}
	var resNames, resTypes []string
	named := false
	if hdecl.Type.Results != nil {
		ri := 0
		for _, f := range hdecl.Type.Results.List {
			if len(f.Names) == 0 {
				resNames = append(resNames, fmt.Sprintf("res%d%s", ri, suffix))
				resTypes = append(resTypes, typeStr(sig.Results().At(ri).Type()))
				ri++
				continue
			}
			for _, nm := range f.Names {
				named = true
				n := nm.Name
				if n == "_" {
					n = fmt.Sprintf("res%d", ri)
				}
				resNames = append(resNames, n+suffix)
				resTypes = append(resTypes, typeStr(sig.Results().At(ri).Type()))
				ri++
			}
		}
	}
	if qerr != nil {
		return nil, qerr
	}
	// ---- guard form: "if [!]f(a) { S }" where every return of f is a boolean constant and S is a
	// short terminating sequence: each return that takes the branch becomes a copy of S, the others leave
	// the inlined body; no flag variable is needed and the paths stay separate in the flow graph ----
	guard := false
	guardText := ""
	var guardExtra []textEdit // edits in the caller's file (a label for the enclosing loop)
	constBool := func(r *ast.ReturnStmt) (val, ok bool) {
		if len(r.Results) != 1 {
			return false, false
		}
		id, isId := r.Results[0].(*ast.Ident)
		if !isId || (id.Name != "true" && id.Name != "false") || hinfo.Uses[id] == nil || hinfo.Uses[id].Parent() != types.Universe {
			return false, false
		}
		return id.Name == "true", true
	}
	if kind == ctxIfCond && ifs.Else == nil && len(returns) > 0 {
		guard = true
		for _, r := range returns {
			if len(r.Results) != 1 {
				guard = false
				break
			}
		}
		n := len(ifs.Body.List)
		var lastBranch *ast.BranchStmt
		if n == 0 || n > 6 {
			guard = false
		} else {
			switch last := ifs.Body.List[n-1].(type) {
			case *ast.ReturnStmt:
			case *ast.BranchStmt:
				if last.Tok == token.CONTINUE || last.Tok == token.BREAK {
					lastBranch = last
				} else {
					guard = false
				}
			default:
				guard = false
			}
		}
		if guard {
			ast.Inspect(ifs.Body, func(m ast.Node) bool {
				switch x := m.(type) {
				case *ast.BranchStmt:
					if x != lastBranch {
						guard = false
					}
				case *ast.FuncLit, *ast.LabeledStmt, *ast.ForStmt, *ast.RangeStmt, *ast.SwitchStmt, *ast.TypeSwitchStmt, *ast.SelectStmt, *ast.DeferStmt, *ast.GoStmt:
					guard = false
				}
				return guard
			})
		}
		if guard {
			guardText = srcOf(ifs.Body)
		}
		if guard && lastBranch != nil && lastBranch.Label == nil {
			// continue / break of the enclosing loop: it has to name the loop, because the copy of S
			// stands inside the loop that wraps the inlined body
			var loop ast.Stmt
			var loopParent ast.Node
			for i, nd := range path {
				switch x := nd.(type) {
				case *ast.ForStmt, *ast.RangeStmt:
					loop = x.(ast.Stmt)
				case *ast.SwitchStmt, *ast.TypeSwitchStmt, *ast.SelectStmt:
					if lastBranch.Tok == token.BREAK {
						guard = false
					}
				case *ast.FuncLit, *ast.FuncDecl:
					guard = false
				}
				if loop != nil {
					if i+1 < len(path) {
						loopParent = path[i+1]
					}
					break
				}
				if !guard {
					break
				}
			}
			if loop == nil {
				guard = false
			}
			if guard {
				lbl := ""
				if ls, ok := loopParent.(*ast.LabeledStmt); ok {
					lbl = ls.Label.Name
				} else {
					lbl = fmt.Sprintf("loop__%d", inlCounter)
					at := fset.File(cfile.Pos()).Offset(loop.Pos())
					guardExtra = append(guardExtra, textEdit{at, at, lbl + ":\n"})
				}
				// re-write the trailing branch statement of the copy
				tfc0 := fset.File(cfile.Pos())
				bs := tfc0.Offset(ifs.Body.Pos())
				ls, le := tfc0.Offset(lastBranch.Pos())-bs, tfc0.Offset(lastBranch.End())-bs
				guardText = guardText[:ls] + lastBranch.Tok.String() + " " + lbl + guardText[le:]
			}
		}
	}
	// ---- returns ----
	for _, r := range returns {
		s, e := off(r.Pos()), off(r.End())
		if guard {
			if v, isConst := constBool(r); isConst {
				if v != negate {
					eds = append(eds, textEdit{s, e, guardText})
				} else {
					eds = append(eds, textEdit{s, e, "break " + label})
				}
				continue
			}
			// return E  ->  { if [!](E) { S }; break label }
			open := "{ if ("
			if negate {
				open = "{ if !("
			}
			eds = append(eds, textEdit{s, s + len("return"), open})
			eds = append(eds, textEdit{e, e, ") " + guardText + "\nbreak " + label + " }"})
			continue
		}
		if len(r.Results) == 0 {
			eds = append(eds, textEdit{s, s + len("return"), "break " + label})
			continue
		}
		if !named && len(resNames) == 0 {
			return nil, fmt.Errorf("return with values in a function without results")
		}
		eds = append(eds, textEdit{s, s + len("return"), "{ " + strings.Join(resNames, ", ") + " ="})
		eds = append(eds, textEdit{e, e, "; break " + label + " }"})
	}
	var deferred []string
	for _, d := range defers {
		// the call text (with renamed identifiers) is taken from the edited body below; here only the
		// keyword is dropped and the statement is moved by marking it
		eds = append(eds, textEdit{off(d.Pos()), off(d.Pos()) + len("defer"), "/*deferred" + suffix + "*/ if false"})
		eds = append(eds, textEdit{off(d.Call.Pos()), off(d.Call.Pos()), "{ "})
		eds = append(eds, textEdit{off(d.End()), off(d.End()), " }"})
	}
	body := applyTextEdits(hcontent[hbase:hend], eds)
	if len(defers) > 0 {
		// extract the renamed call texts from the edited body: "/*deferred__iN*/ if false{ <call> }"
		marker := "/*deferred" + suffix + "*/ if false { "
		rest := string(body)
		var kept strings.Builder
		for {
			i := strings.Index(rest, marker)
			if i < 0 {
				kept.WriteString(rest)
				break
			}
			kept.WriteString(rest[:i])
			rest = rest[i+len(marker):]
			// the call ends at the matching " }" appended above: find it by brace depth
			depth, j := 0, 0
			for j = 0; j < len(rest); j++ {
				if rest[j] == '{' {
					depth++
				} else if rest[j] == '}' {
					if depth == 0 {
						break
					}
					depth--
				}
			}
			deferred = append(deferred, strings.TrimSpace(rest[:j]))
			if j < len(rest) {
				j++ // the closing brace
			}
			rest = rest[j:]
		}
		body = []byte(kept.String())
		if len(deferred) != len(defers) {
			return nil, fmt.Errorf("internal: deferred calls not recovered")
		}
	}

	// ---- assemble ----
	var b bytes.Buffer
	tfc := fset.File(cfile.Pos())
	stmtStart, stmtEnd := tfc.Offset(stmt.Pos()), tfc.Offset(stmt.End())
	// variables newly declared by :=
	if assign != nil && assign.Tok == token.DEFINE {
		for _, l := range assign.Lhs {
			id, ok := l.(*ast.Ident)
			if !ok {
				return nil, fmt.Errorf("non-identifier on the left of :=")
			}
			if id.Name == "_" {
				continue
			}
			if obj, isNew := cinfo.Defs[id].(*types.Var); isNew && obj != nil {
				fmt.Fprintf(&b, "var %s %s\n", id.Name, typeStr(obj.Type()))
			}
		}
		if qerr != nil {
			return nil, qerr
		}
	}
	if assign != nil {
		for _, l := range assign.Lhs {
			if !pureLHS(l) {
				return nil, fmt.Errorf("left-hand side with side effects")
			}
		}
	}
	condVar := "cond" + suffix
	if kind == ctxIfCond && !guard {
		fmt.Fprintf(&b, "var %s %s\n", condVar, resTypes[0])
	}
	b.WriteString("{\n")
	if len(binds) > 0 {
		var ls, rs []string
		for _, bd := range binds {
			ls = append(ls, bd.name)
			rs = append(rs, "("+bd.typ+")("+bd.arg+")")
		}
		fmt.Fprintf(&b, "%s := %s\n", strings.Join(ls, ", "), strings.Join(rs, ", "))
		fmt.Fprintf(&b, "%s = %s\n", strings.Repeat("_, ", len(ls)-1)+"_", strings.Join(ls, ", "))
	}
	for i := range resNames {
		if guard {
			break
		}
		fmt.Fprintf(&b, "var %s %s\n_ = %s\n", resNames[i], resTypes[i], resNames[i])
	}
	fmt.Fprintf(&b, "%s:\nfor {\n", label)
	b.Write(body)
	fmt.Fprintf(&b, "\nbreak %s\n}\n", label)
	for i := len(deferred) - 1; i >= 0; i-- {
		fmt.Fprintf(&b, "%s\n", deferred[i])
	}
	switch kind {
	case ctxAssign:
		var ls []string
		for _, l := range assign.Lhs {
			ls = append(ls, srcOf(l))
		}
		if len(ls) != len(resNames) {
			return nil, fmt.Errorf("assignment count")
		}
		fmt.Fprintf(&b, "%s = %s\n", strings.Join(ls, ", "), strings.Join(resNames, ", "))
	case ctxReturn:
		fmt.Fprintf(&b, "return %s\n", strings.Join(resNames, ", "))
	case ctxIfCond:
		if !guard {
			fmt.Fprintf(&b, "%s = %s\n", condVar, resNames[0])
		}
	}
	b.WriteString("}\n")
	var out []textEdit
	out = append(out, guardExtra...)
	if initOf != nil {
		kw := "if "
		switch initOf.(type) {
		case *ast.SwitchStmt, *ast.TypeSwitchStmt:
			kw = "switch "
		}
		out = append(out, textEdit{tfc.Offset(initOf.Pos()), tfc.Offset(initNext), "{\n" + b.String() + kw})
		out = append(out, textEdit{tfc.Offset(initOf.End()), tfc.Offset(initOf.End()), "\n}"})
	} else if guard {
		// the whole if statement is replaced
		out = append(out, textEdit{stmtStart, stmtEnd, b.String()})
	} else if kind == ctxIfCond {
		// statements go before the if; the condition becomes the variable
		out = append(out, textEdit{stmtStart, stmtStart, b.String()})
		cs, ce := tfc.Offset(ifs.Cond.Pos()), tfc.Offset(ifs.Cond.End())
		c := condVar
		if negate {
			c = "!" + condVar
		}
		out = append(out, textEdit{cs, ce, c})
	} else {
		out = append(out, textEdit{stmtStart, stmtEnd, b.String()})
	}
	if len(addImports) > 0 {
		// after the last import declaration (or the package clause)
		at := tfc.Offset(cfile.Name.End())
		for _, d := range cfile.Decls {
			if g, ok := d.(*ast.GenDecl); ok && g.Tok == token.IMPORT {
				at = tfc.Offset(g.End())
			}
		}
		out = append(out, textEdit{at, at, "\n" + strings.Join(addImports, "\n") + "\n"})
	}
	return applyTextEdits(ccontent, out), nil
}

// pureLHS: evaluating the operands of an assignment target has no side effects and cannot panic
// differently when moved after the callee's body.
func pureLHS(e ast.Expr) bool {
	switch x := e.(type) {
	case *ast.Ident:
		return true
	case *ast.SelectorExpr:
		return pureLHS(x.X)
	case *ast.StarExpr:
		return pureLHS(x.X)
	case *ast.ParenExpr:
		return pureLHS(x.X)
	case *ast.IndexExpr:
		return pureLHS(x.X) && pureOperand(x.Index)
	}
	return false
}

func pureOperand(e ast.Expr) bool {
	switch x := e.(type) {
	case *ast.Ident, *ast.BasicLit:
		return true
	case *ast.SelectorExpr:
		return pureOperand(x.X)
	case *ast.ParenExpr:
		return pureOperand(x.X)
	}
	return false
}

// enclosingPath returns the chain of nodes from target up to the file.
func enclosingPath(f *ast.File, target ast.Node) []ast.Node {
	var stack, found []ast.Node
	ast.Inspect(f, func(n ast.Node) bool {
		if found != nil {
			return false
		}
		if n == nil {
			stack = stack[:len(stack)-1]
			return true
		}
		stack = append(stack, n)
		if n == target {
			for i := len(stack) - 1; i >= 0; i-- {
				found = append(found, stack[i])
			}
			return false
		}
		return true
	})
	return found
}

// hoistCall moves a single-valued helper call out of a larger expression into its own statement
// placed immediately before the statement that contains it:
//
//	m[k] = T{a: f(x)}      =>      tmp__h1 := f(x); m[k] = T{a: tmp__h1}
//
// Go evaluates function calls, method calls and channel operations of a statement in lexical
// left-to-right order and leaves the order of plain variable reads unspecified, so the move is
// behaviour preserving when no call, receive or short-circuit operator precedes the helper call in
// the statement and the call is evaluated unconditionally.  The new statement is then handled by
// the statement-level inliner in the next round.
func hoistCall(cpkg *packages.Package, cfile *ast.File, call *ast.CallExpr, ccontent []byte) ([]byte, error) {
	fset := cpkg.Fset
	info := cpkg.TypesInfo
	if tv, ok := info.Types[call]; !ok || tv.IsVoid() {
		return nil, fmt.Errorf("void call")
	} else if _, isTuple := tv.Type.(*types.Tuple); isTuple {
		return nil, fmt.Errorf("multi-valued call inside an expression")
	}
	path := enclosingPath(cfile, call)
	if len(path) >= 2 {
		switch p := path[1].(type) {
		case *ast.ExprStmt:
			return nil, fmt.Errorf("call is already a statement")
		case *ast.AssignStmt:
			if len(p.Rhs) == 1 && p.Rhs[0] == ast.Expr(call) {
				return nil, fmt.Errorf("call is already a whole right-hand side")
			}
		case *ast.ReturnStmt:
			if len(p.Results) == 1 {
				return nil, fmt.Errorf("call is already the returned expression")
			}
		}
	}
	// the innermost enclosing statement
	var stmt ast.Stmt
	si := -1
	for i, n := range path {
		if s, ok := n.(ast.Stmt); ok {
			stmt, si = s, i
			break
		}
	}
	if stmt == nil || si+1 >= len(path) {
		return nil, fmt.Errorf("no enclosing statement")
	}
	switch h := path[si+1].(type) {
	case *ast.BlockStmt, *ast.CaseClause, *ast.CommClause:
		_ = h
	default:
		return nil, fmt.Errorf("statement is not in a block (%T)", path[si+1])
	}
	var root ast.Node // the expression region of the statement that is evaluated when the statement starts
	switch s := stmt.(type) {
	case *ast.AssignStmt, *ast.ExprStmt, *ast.ReturnStmt, *ast.SendStmt, *ast.IncDecStmt:
		root = s
	case *ast.IfStmt:
		if s.Init != nil {
			return nil, fmt.Errorf("if with init")
		}
		root = s.Cond
	case *ast.SwitchStmt:
		if s.Init != nil || s.Tag == nil {
			return nil, fmt.Errorf("switch with init or without tag")
		}
		root = s.Tag
	default:
		return nil, fmt.Errorf("call in a %T", stmt)
	}
	if !(call.Pos() >= root.Pos() && call.End() <= root.End()) {
		return nil, fmt.Errorf("call is not in the statement's own expression")
	}
	// nothing with an effect before the call, and the call itself unconditional
	for _, n := range path[:si] {
		switch x := n.(type) {
		case *ast.FuncLit:
			return nil, fmt.Errorf("call inside a function literal")
		case *ast.BinaryExpr:
			if (x.Op == token.LAND || x.Op == token.LOR) && call.Pos() >= x.Y.Pos() {
				return nil, fmt.Errorf("call evaluated conditionally")
			}
		}
	}
	var blocker string
	var blockingCall *ast.CallExpr
	ast.Inspect(root, func(n ast.Node) bool {
		if n == nil || blocker != "" {
			return false
		}
		if n.Pos() >= call.Pos() && n != ast.Node(root) {
			// nodes starting at or after the call are evaluated after it or contain it
			if !(n.Pos() <= call.Pos() && n.End() >= call.End()) {
				return false
			}
		}
		switch x := n.(type) {
		case *ast.CallExpr:
			if x == call || (x.Pos() <= call.Pos() && x.End() >= call.End()) {
				// an enclosing call: its function operand and earlier arguments are inspected as children
				return true
			}
			if tv, ok := info.Types[x.Fun]; ok && tv.IsType() {
				return true // conversion
			}
			if id, ok := x.Fun.(*ast.Ident); ok {
				if _, isB := info.Uses[id].(*types.Builtin); isB && (id.Name == "len" || id.Name == "cap") {
					return true
				}
			}
			if x.End() <= call.Pos() {
				blocker = "a call precedes it in the statement"
				blockingCall = x
			}
		case *ast.UnaryExpr:
			if x.Op == token.ARROW && x.End() <= call.Pos() {
				blocker = "a receive precedes it in the statement"
			}
		case *ast.FuncLit:
			return false
		}
		return true
	})
	if blockingCall != nil {
		// hoist the earlier call first (calls are evaluated in lexical order, so taking them out one
		// by one from the left keeps the order); the helper call follows in a later round
		if out, err := hoistCall(cpkg, cfile, blockingCall, ccontent); err == nil {
			return out, nil
		} else {
			return nil, fmt.Errorf("%s (which cannot be hoisted: %v)", blocker, err)
		}
	}
	if blocker != "" {
		return nil, fmt.Errorf("%s", blocker)
	}
	inlCounter++
	tmp := fmt.Sprintf("tmp__h%d", inlCounter)
	tf := fset.File(cfile.Pos())
	cs, ce := tf.Offset(call.Pos()), tf.Offset(call.End())
	ss := tf.Offset(stmt.Pos())
	eds := []textEdit{
		{cs, ce, tmp},
		{ss, ss, tmp + " := " + string(ccontent[cs:ce]) + "\n"},
	}
	return applyTextEdits(ccontent, eds), nil
}
