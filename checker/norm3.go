package main

// NORM, part 3: local closures.
//
// "Extract a local helper closure" (v := func(...) {...}; ... v(a) ...) is the in-function form of
// "extract function".  Closure variables that are not in the inventory recorded for the pinned tree
// (baseline_closures.txt: enclosing declared function + variable name) and that are never
// re-assigned have their direct calls inlined with the statement-level inliner; a closure capturesits
// free variables by reference, so executing its body at the call site (where every free identifier
// must resolve to the same object) is the same computation.  A definition whose calls are all gone
// is removed (evaluating a function literal has no effect), so no dead literal is left behind.
// A local "f := x.M" (method value of a never re-assigned variable) that is only called is reduced
// to the method calls x.M(...) in the same way.

import (
	_ "embed"
	"fmt"
	"go/ast"
	"go/token"
	"go/types"
	"golang.org/x/tools/go/types/typeutil"
	"sort"
	"strings"

	"golang.org/x/tools/go/packages"
)

//go:embed baseline_closures.txt
var baselineClosuresTxt string

// baselineClosures: enclosing function -> closure variable name -> its function type.
func baselineClosures() map[string]map[string]string {
	m := map[string]map[string]string{}
	for _, l := range strings.Split(baselineClosuresTxt, "\n") {
		l = strings.TrimSpace(l)
		if l == "" || strings.HasPrefix(l, "#") {
			continue
		}
		f := strings.Split(l, "\t")
		if len(f) < 2 {
			continue
		}
		if m[f[0]] == nil {
			m[f[0]] = map[string]string{}
		}
		sig := ""
		if len(f) > 2 {
			sig = f[2]
		}
		m[f[0]][f[1]] = sig
	}
	return m
}

type closureVar struct {
	obj     *types.Var
	lit     *ast.FuncLit      // nil for a method value
	mval    *ast.SelectorExpr // method value x.M
	rhs     ast.Expr          // the whole right-hand side element (possibly a conversion around lit)
	def     ast.Stmt          // the defining statement
	single  bool              // def declares only this variable and rhs is exactly lit/mval
	encl    string            // full name of the enclosing declared function
	enclFn  *ast.FuncDecl
	file    *ast.File
	pkg     *packages.Package
	calls   []*ast.CallExpr // direct calls v(...)
	blanks  int             // uses on the right of an all-blank assignment
	others  int             // any other use
	written bool            // assigned after its definition or address taken
}

func unwrapFuncExpr(e ast.Expr) ast.Expr {
	for {
		switch x := e.(type) {
		case *ast.ParenExpr:
			e = x.X
		case *ast.CallExpr:
			// conversion (T)(x) to a function type
			if len(x.Args) != 1 {
				return e
			}
			switch ast.Unparen(x.Fun).(type) {
			case *ast.FuncType:
				e = x.Args[0]
			default:
				return e
			}
		default:
			return e
		}
	}
}

// closureVars finds the local variables of module functions that are defined once by a function
// literal (or a method value) together with their uses.
func closureVars(pkgs []*packages.Package) []*closureVar {
	var out []*closureVar
	for _, d := range moduleDecls(pkgs) {
		info := d.pkg.TypesInfo
		byObj := map[*types.Var]*closureVar{}
		add := func(id *ast.Ident, rhs ast.Expr, def ast.Stmt, single bool) {
			if id.Name == "_" {
				return
			}
			obj, _ := info.Defs[id].(*types.Var)
			if obj == nil {
				return
			}
			cv := &closureVar{obj: obj, rhs: rhs, def: def, encl: d.fn.FullName(), enclFn: d.decl, file: d.file, pkg: d.pkg}
			switch x := unwrapFuncExpr(rhs).(type) {
			case *ast.FuncLit:
				cv.lit = x
				cv.single = single && ast.Unparen(rhs) == ast.Expr(x)
			case *ast.SelectorExpr:
				if sel := info.Selections[x]; sel != nil && sel.Kind() == types.MethodVal {
					cv.mval = x
					cv.single = single
				} else {
					return
				}
			default:
				return
			}
			byObj[obj] = cv
			out = append(out, cv)
		}
		ast.Inspect(d.decl.Body, func(n ast.Node) bool {
			switch x := n.(type) {
			case *ast.AssignStmt:
				if x.Tok == token.DEFINE && len(x.Lhs) == len(x.Rhs) {
					for i := range x.Lhs {
						if id, ok := x.Lhs[i].(*ast.Ident); ok {
							add(id, x.Rhs[i], x, len(x.Lhs) == 1)
						}
					}
				}
			case *ast.DeclStmt:
				if g, ok := x.Decl.(*ast.GenDecl); ok && g.Tok == token.VAR && len(g.Specs) == 1 {
					if vs, ok := g.Specs[0].(*ast.ValueSpec); ok && len(vs.Names) == len(vs.Values) {
						for i := range vs.Names {
							add(vs.Names[i], vs.Values[i], x, len(vs.Names) == 1)
						}
					}
				}
			}
			return true
		})
		if len(byObj) == 0 {
			continue
		}
		// uses
		var stack []ast.Node
		ast.Inspect(d.decl.Body, func(n ast.Node) bool {
			if n == nil {
				stack = stack[:len(stack)-1]
				return true
			}
			stack = append(stack, n)
			id, ok := n.(*ast.Ident)
			if !ok {
				return true
			}
			obj, _ := info.Uses[id].(*types.Var)
			cv := byObj[obj]
			if cv == nil {
				return true
			}
			parent := stack[len(stack)-2]
			switch p := parent.(type) {
			case *ast.CallExpr:
				if p.Fun == ast.Expr(id) {
					cv.calls = append(cv.calls, p)
					return true
				}
			case *ast.AssignStmt:
				onLeft := false
				for _, l := range p.Lhs {
					if l == ast.Expr(id) {
						onLeft = true
					}
				}
				if onLeft {
					cv.written = true
					return true
				}
				allBlank := true
				for _, l := range p.Lhs {
					if b, ok := l.(*ast.Ident); !ok || b.Name != "_" {
						allBlank = false
					}
				}
				if allBlank && p.Tok == token.ASSIGN {
					cv.blanks++
					return true
				}
			case *ast.UnaryExpr:
				if p.Op == token.AND {
					cv.written = true
				}
			}
			cv.others++
			return true
		})
	}
	return out
}

// iifeCalls: calls whose function operand is a function literal (immediately invoked), other than the
// operands of go / defer statements, per enclosing declared function.
func iifeCalls(pkgs []*packages.Package) map[string][]iifeCall {
	out := map[string][]iifeCall{}
	for _, d := range moduleDecls(pkgs) {
		var stack []ast.Node
		ast.Inspect(d.decl.Body, func(n ast.Node) bool {
			if n == nil {
				stack = stack[:len(stack)-1]
				return true
			}
			stack = append(stack, n)
			call, ok := n.(*ast.CallExpr)
			if !ok {
				return true
			}
			lit, ok := ast.Unparen(call.Fun).(*ast.FuncLit)
			if !ok {
				return true
			}
			if len(stack) >= 2 {
				switch stack[len(stack)-2].(type) {
				case *ast.GoStmt, *ast.DeferStmt:
					return true
				}
			}
			out[d.fn.FullName()] = append(out[d.fn.FullName()], iifeCall{call: call, lit: lit, file: d.file, pkg: d.pkg, encl: d.fn.FullName()})
			return true
		})
	}
	return out
}

type iifeCall struct {
	call *ast.CallExpr
	lit  *ast.FuncLit
	file *ast.File
	pkg  *packages.Package
	encl string
}

func closureInventory(pkgs []*packages.Package) []string {
	seen := map[string]bool{}
	var out []string
	for encl, cs := range iifeCalls(pkgs) {
		out = append(out, fmt.Sprintf("%s\t#iife\t%d", encl, len(cs)))
	}
	for encl, ls := range eachLoops(pkgs) {
		out = append(out, fmt.Sprintf("%s\t#eachloop\t%d", encl, len(ls)))
	}
	for _, cv := range closureVars(pkgs) {
		l := cv.encl + "\t" + cv.obj.Name() + "\t" + closureSig(cv)
		if !seen[l] {
			seen[l] = true
			out = append(out, l)
		}
	}
	sort.Strings(out)
	return out
}

// newClosureVars: closure variables that do not exist on the pinned tree.  Within one enclosing
// function the variables whose names are recorded are the old ones; the others are new provided
// their number equals the surplus over the recorded count (otherwise a recorded closure may just
// have been renamed and nothing is touched).
func closureSig(cv *closureVar) string {
	return types.TypeString(cv.obj.Type(), func(p *types.Package) string { return p.Path() })
}

func newClosureVars(pkgs []*packages.Package, base map[string]map[string]string, skip map[string]bool) []*closureVar {
	byEncl := map[string][]*closureVar{}
	for _, cv := range closureVars(pkgs) {
		byEncl[cv.encl] = append(byEncl[cv.encl], cv)
	}
	var out []*closureVar
	for encl, cvs := range byEncl {
		b := base[encl]
		var unknown []*closureVar
		names := map[string]bool{}
		for _, cv := range cvs {
			names[cv.obj.Name()] = true
		}
		for _, cv := range cvs {
			if _, known := b[cv.obj.Name()]; !known {
				unknown = append(unknown, cv)
			}
		}
		// a recorded closure that is gone under its name may be one of the unknown ones (renamed): an
		// unknown closure of the same function type as a missing one is left alone
		missingSigs := map[string]bool{}
		for n, sig := range b {
			if !names[n] {
				missingSigs[sig] = true
			}
		}
		for _, cv := range unknown {
			if missingSigs[closureSig(cv)] || missingSigs[""] {
				continue
			}
			if cv.written || skip[closureKey(cv)] {
				continue
			}
			out = append(out, cv)
		}
	}
	sort.Slice(out, func(i, j int) bool { return out[i].obj.Pos() < out[j].obj.Pos() })
	return out
}

func closureKey(cv *closureVar) string { return "closure:" + cv.encl + ":" + cv.obj.Name() }

// neverReassigned: the variable behind id is a parameter or local that is assigned only by its
// declaration and whose address is not taken inside fn.
func neverReassigned(info *types.Info, fn *ast.FuncDecl, obj types.Object) bool {
	v, ok := obj.(*types.Var)
	if !ok || v.IsField() || v.Pkg() == nil || v.Parent() == v.Pkg().Scope() {
		return false
	}
	ok = true
	ast.Inspect(fn, func(n ast.Node) bool {
		switch x := n.(type) {
		case *ast.AssignStmt:
			for _, l := range x.Lhs {
				if id, isId := l.(*ast.Ident); isId && info.Uses[id] == obj {
					ok = false
				}
			}
		case *ast.IncDecStmt:
			if id, isId := x.X.(*ast.Ident); isId && info.Uses[id] == obj {
				ok = false
			}
		case *ast.UnaryExpr:
			if id, isId := ast.Unparen(x.X).(*ast.Ident); isId && x.Op == token.AND && info.Uses[id] == obj {
				ok = false
			}
		case *ast.RangeStmt:
			for _, e := range []ast.Expr{x.Key, x.Value} {
				if id, isId := e.(*ast.Ident); isId && x.Tok == token.ASSIGN && info.Uses[id] == obj {
					ok = false
				}
			}
		}
		return true
	})
	return ok
}

// closureStep performs one normalisation step for the closure variable and returns the new file
// content; done=false means nothing could be done (the variable is then skipped).
func closureStep(cv *closureVar, content []byte) (out []byte, what string, err error) {
	fset := cv.pkg.Fset
	tf := fset.File(cv.file.Pos())
	src := func(n ast.Node) string { return string(content[tf.Offset(n.Pos()):tf.Offset(n.End())]) }
	// (a) no call left: remove the definition
	if len(cv.calls) == 0 {
		if cv.others > 0 {
			return nil, "", fmt.Errorf("used as a value")
		}
		if cv.single && cv.blanks <= 1 {
			eds := []textEdit{{tf.Offset(cv.def.Pos()), tf.Offset(cv.def.End()), ""}}
			// the blank use "_ = v"
			var blank ast.Stmt
			ast.Inspect(cv.enclFn.Body, func(n ast.Node) bool {
				if as, ok := n.(*ast.AssignStmt); ok && as.Tok == token.ASSIGN && len(as.Lhs) == 1 && len(as.Rhs) == 1 {
					if id, ok := as.Rhs[0].(*ast.Ident); ok && cv.pkg.TypesInfo.Uses[id] == types.Object(cv.obj) {
						blank = as
					}
				}
				return true
			})
			if cv.blanks == 1 {
				if blank == nil {
					return nil, "", fmt.Errorf("blank use not found")
				}
				eds = append(eds, textEdit{tf.Offset(blank.Pos()), tf.Offset(blank.End()), ""})
			}
			return applyTextEdits(content, eds), "removed the dead definition of " + cv.obj.Name(), nil
		}
		if cv.lit != nil && ast.Unparen(cv.rhs) != ast.Expr(cv.lit) {
			// a converted literal among several bindings: (T)(func...) -> (T)(nil)
			return applyTextEdits(content, []textEdit{{tf.Offset(cv.lit.Pos()), tf.Offset(cv.lit.End()), "nil"}}), "dropped the dead literal bound to " + cv.obj.Name(), nil
		}
		return nil, "", fmt.Errorf("dead definition in a multi-variable declaration")
	}
	if cv.mval != nil && cv.blanks == 0 {
		at := tf.Offset(cv.def.End())
		return applyTextEdits(content, []textEdit{{at, at, "\n_ = " + cv.obj.Name() + "\n"}}), "pinned " + cv.obj.Name(), nil
	}
	// (c) inline one call (the last one in the file first)
	calls := append([]*ast.CallExpr{}, cv.calls...)
	sort.Slice(calls, func(i, j int) bool { return calls[i].Pos() > calls[j].Pos() })
	var firstErr error
	for _, call := range calls {
		if cv.mval != nil {
			// v(args) -> x.M(args)
			root := ast.Unparen(cv.mval.X)
			id, ok := root.(*ast.Ident)
			if !ok {
				return nil, "", fmt.Errorf("method value of a non-variable")
			}
			obj := cv.pkg.TypesInfo.Uses[id]
			if !neverReassigned(cv.pkg.TypesInfo, cv.enclFn, obj) {
				return nil, "", fmt.Errorf("receiver %s of the method value may change", id.Name)
			}
			if sel := cv.pkg.TypesInfo.Selections[cv.mval]; sel == nil || len(sel.Index()) != 1 {
				return nil, "", fmt.Errorf("promoted method value")
			}
			// a value receiver is copied when the method value is made; only pointer and interface
			// receivers denote the same object later
			switch cv.pkg.TypesInfo.TypeOf(cv.mval.X).Underlying().(type) {
			case *types.Pointer, *types.Interface:
			default:
				return nil, "", fmt.Errorf("method value with a copied receiver")
			}
			inner := cv.pkg.Types.Scope().Innermost(call.Pos())
			if inner == nil {
				return nil, "", fmt.Errorf("no scope")
			}
			if _, got := inner.LookupParent(id.Name, call.Pos()); got != obj {
				if firstErr == nil {
					firstErr = fmt.Errorf("receiver %s is shadowed at the call", id.Name)
				}
				continue
			}
			return applyTextEdits(content, []textEdit{{tf.Offset(call.Fun.Pos()), tf.Offset(call.Fun.End()), src(cv.mval)}}), "reduced a call of the method value " + cv.obj.Name(), nil
		}
		break
	}
	if cv.mval != nil {
		return nil, "", firstErr
	}
	// function literal: inline as many calls as possible in one step, bottom-up, as long as the
	// replaced statements lie entirely before everything changed so far (offsets stay valid)
	sig, _ := cv.pkg.TypesInfo.TypeOf(cv.lit).(*types.Signature)
	if sig == nil {
		return nil, "", fmt.Errorf("no signature")
	}
	decl := &ast.FuncDecl{Type: cv.lit.Type, Body: cv.lit.Body}
	stmtOf := func(call *ast.CallExpr) ast.Node {
		p := enclosingPath(cv.file, call)
		for i := 0; i+1 < len(p); i++ {
			switch p[i+1].(type) {
			case *ast.BlockStmt, *ast.CaseClause, *ast.CommClause:
				return p[i]
			}
		}
		return nil
	}
	cur := content
	limit := len(content)
	n := 0
	var places []string
	for _, call := range calls {
		st := stmtOf(call)
		if st == nil || tf.Offset(st.End()) > limit || tf.Offset(cv.lit.End()) > tf.Offset(st.Pos()) {
			break
		}
		res, err := stmtInlineSig(cv.pkg, cv.file, call, cur, cv.pkg, decl, cur, sig)
		if err != nil {
			if firstErr == nil {
				firstErr = err
			}
			break
		}
		start := tf.Offset(st.Pos())
		if len(res) < start || string(res[:start]) != string(cur[:start]) {
			// something before the statement changed (an import was added): finish this step here
			if n == 0 {
				return res, fmt.Sprintf("inlined the local closure %s at %s", cv.obj.Name(), fset.Position(call.Pos())), nil
			}
			break
		}
		cur, limit = res, start
		n++
		places = append(places, fmt.Sprint(fset.Position(call.Pos()).Line))
	}
	if n == len(calls) && cv.others == 0 && cv.single && tf.Offset(cv.def.End()) <= limit {
		eds := []textEdit{{tf.Offset(cv.def.Pos()), tf.Offset(cv.def.End()), ""}}
		if cv.blanks > 0 {
			goto partial
		}
		return applyTextEdits(cur, eds), fmt.Sprintf("inlined the local closure %s of %s at lines %s and removed its definition", cv.obj.Name(), cv.encl, strings.Join(places, ",")), nil
	}
partial:
	if cv.blanks == 0 {
		at := tf.Offset(cv.def.End())
		return applyTextEdits(content, []textEdit{{at, at, "\n_ = " + cv.obj.Name() + "\n"}}), "pinned " + cv.obj.Name(), nil
	}
	if n > 0 {
		return cur, fmt.Sprintf("inlined the local closure %s of %s at lines %s", cv.obj.Name(), cv.encl, strings.Join(places, ",")), nil
	}
	for _, call := range calls {
		if res, err2 := hoistCall(cv.pkg, cv.file, call, content); err2 == nil {
			return res, fmt.Sprintf("hoisted the call of the local closure %s at %s", cv.obj.Name(), fset.Position(call.Pos())), nil
		}
	}
	return nil, "", firstErr
}

// newIIFEs: immediately invoked function literals in functions that have more of them than on the
// pinned tree (typically the residue of inlining a helper that takes a function argument).
func newIIFEs(pkgs []*packages.Package, base map[string]map[string]string, skip map[string]bool) []iifeCall {
	var out []iifeCall
	all := iifeCalls(pkgs)
	var encls []string
	for e := range all {
		encls = append(encls, e)
	}
	sort.Strings(encls)
	for _, encl := range encls {
		cs := all[encl]
		n := 0
		if b, ok := base[encl]; ok {
			fmt.Sscanf(b["#iife"], "%d", &n)
		}
		if len(cs) <= n || skip["iife:"+encl] {
			continue
		}
		out = append(out, cs...)
	}
	return out
}

// iifeStep inlines one immediately invoked literal of the file (the last one first).
func iifeStep(c iifeCall, content []byte) ([]byte, string, error) {
	sig, _ := c.pkg.TypesInfo.TypeOf(c.lit).(*types.Signature)
	if sig == nil {
		return nil, "", fmt.Errorf("no signature")
	}
	decl := &ast.FuncDecl{Type: c.lit.Type, Body: c.lit.Body}
	res, err := stmtInlineSig(c.pkg, c.file, c.call, content, c.pkg, decl, content, sig)
	if err != nil {
		return nil, "", err
	}
	return res, fmt.Sprintf("inlined an immediately invoked function literal in %s at %s", c.encl, c.pkg.Fset.Position(c.call.Pos())), nil
}

// ---- method values of new methods: recv.m  ->  func(p...) r { return recv.m(p...) } ----
//
// A helper struct whose new methods are handed out as callbacks (mm.Counters.Each(tm.mergeCounter)) hides
// the callback bodies from intra-procedural rules.  The method value is eta-expanded into a function
// literal that calls the method (same behaviour when the receiver variable is never re-assigned: a
// method value binds the receiver when it is evaluated, the literal reads it when it is called); the call
// inside the literal is then inlined like any other call of a new helper.

type methodValueUse struct {
	id   *ast.Ident // a plain function used as a value (sel is nil then)
	sel  *ast.SelectorExpr
	fn   *types.Func
	file *ast.File
	pkg  *packages.Package
	encl *ast.FuncDecl
}

func newMethodValues(pkgs []*packages.Package, helpers map[*types.Func]declInfo, skip map[string]bool) []methodValueUse {
	var out []methodValueUse
	for _, d := range moduleDecls(pkgs) {
		info := d.pkg.TypesInfo
		var stack []ast.Node
		ast.Inspect(d.decl.Body, func(n ast.Node) bool {
			if n == nil {
				stack = stack[:len(stack)-1]
				return true
			}
			stack = append(stack, n)
			if id, isId := n.(*ast.Ident); isId {
				// a new plain function used as a value (handed to another function, stored): f -> func(p...) R { return f(p...) }
				fn, _ := info.Uses[id].(*types.Func)
				if fn == nil || fn.Type().(*types.Signature).Recv() != nil {
					return true
				}
				if _, isNew := helpers[fn.Origin()]; !isNew || skip["mval:"+fn.FullName()] {
					return true
				}
				if len(stack) >= 2 {
					switch p := stack[len(stack)-2].(type) {
					case *ast.CallExpr:
						if ast.Unparen(p.Fun) == ast.Expr(id) {
							return true
						}
					case *ast.SelectorExpr:
						return true // pkg.f or x.f: handled as a selector
					}
				}
				out = append(out, methodValueUse{id: id, fn: fn, file: d.file, pkg: d.pkg, encl: d.decl})
				return true
			}
			sel, ok := n.(*ast.SelectorExpr)
			if !ok {
				return true
			}
			s := info.Selections[sel]
			if s == nil || s.Kind() != types.MethodVal {
				return true
			}
			fn, _ := s.Obj().(*types.Func)
			if fn == nil {
				return true
			}
			if _, isNew := helpers[fn.Origin()]; !isNew || skip["mval:"+fn.FullName()] {
				return true
			}
			// not the function operand of a call (that is an ordinary method call)
			if len(stack) >= 2 {
				if call, isCall := stack[len(stack)-2].(*ast.CallExpr); isCall && ast.Unparen(call.Fun) == ast.Expr(sel) {
					return true
				}
			}
			out = append(out, methodValueUse{sel: sel, fn: fn, file: d.file, pkg: d.pkg, encl: d.decl})
			return true
		})
	}
	return out
}

var methodValueCounter int

func methodValueStep(u methodValueUse, content []byte) ([]byte, string, error) {
	info := u.pkg.TypesInfo
	if u.id != nil {
		sig := u.fn.Type().(*types.Signature)
		if sig.Variadic() || sig.TypeParams().Len() > 0 {
			return nil, "", fmt.Errorf("variadic or generic function value")
		}
		var qerr error
		qual := fileQualifier(u.pkg, u.file, &qerr)
		var params, args, rs []string
		for i := 0; i < sig.Params().Len(); i++ {
			params = append(params, fmt.Sprintf("a%d__mv %s", i, types.TypeString(sig.Params().At(i).Type(), qual)))
			args = append(args, fmt.Sprintf("a%d__mv", i))
		}
		for i := 0; i < sig.Results().Len(); i++ {
			rs = append(rs, types.TypeString(sig.Results().At(i).Type(), qual))
		}
		if qerr != nil {
			return nil, "", qerr
		}
		res, ret := "", ""
		if len(rs) > 0 {
			res, ret = " ("+strings.Join(rs, ", ")+")", "return "
		}
		tf := u.pkg.Fset.File(u.file.Pos())
		lit := fmt.Sprintf("func(%s)%s { %s%s(%s) }", strings.Join(params, ", "), res, ret, u.id.Name, strings.Join(args, ", "))
		out := applyTextEdits(content, []textEdit{{tf.Offset(u.id.Pos()), tf.Offset(u.id.End()), lit}})
		return out, fmt.Sprintf("expanded the function value %s at %s into a function literal", u.id.Name, u.pkg.Fset.Position(u.id.Pos())), nil
	}
	id, ok := ast.Unparen(u.sel.X).(*ast.Ident)
	if !ok {
		// a composite literal as the receiver (state{a, b}.run): the literal is evaluated once, when the method
		// value is; it is bound to a fresh variable first, inside an immediately invoked literal that NORM's
		// other steps then dissolve:  func() F { r := LIT; return func(p...) R { return r.m(p...) } }()
		lit, isLit := ast.Unparen(u.sel.X).(*ast.CompositeLit)
		if !isLit {
			return nil, "", fmt.Errorf("receiver of the method value is not a variable")
		}
		pure := true
		ast.Inspect(lit, func(n ast.Node) bool {
			switch n.(type) {
			case *ast.CallExpr, *ast.FuncLit, *ast.UnaryExpr:
				if ue, isU := n.(*ast.UnaryExpr); isU && ue.Op == token.AND {
					return true
				}
				pure = false
			}
			return pure
		})
		if !pure {
			return nil, "", fmt.Errorf("receiver literal with calls")
		}
		sig := u.fn.Type().(*types.Signature)
		if sig.Variadic() {
			return nil, "", fmt.Errorf("variadic method")
		}
		var qerr error
		qual := fileQualifier(u.pkg, u.file, &qerr)
		var params, args, rs []string
		for i := 0; i < sig.Params().Len(); i++ {
			params = append(params, fmt.Sprintf("a%d__mv %s", i, types.TypeString(sig.Params().At(i).Type(), qual)))
			args = append(args, fmt.Sprintf("a%d__mv", i))
		}
		for i := 0; i < sig.Results().Len(); i++ {
			rs = append(rs, types.TypeString(sig.Results().At(i).Type(), qual))
		}
		ftype := "func(" + strings.Join(params, ", ") + ")"
		ret := ""
		if len(rs) > 0 {
			ftype += " (" + strings.Join(rs, ", ") + ")"
			ret = "return "
		}
		if qerr != nil {
			return nil, "", qerr
		}
		tf := u.pkg.Fset.File(u.file.Pos())
		litSrc := string(content[tf.Offset(lit.Pos()):tf.Offset(lit.End())])
		methodValueCounter++
		rv := fmt.Sprintf("recv__mv%d", methodValueCounter)
		// inside a larger expression (an argument of a call): the binding is placed before the statement when the
		// statement stands in a block and evaluates no call before the literal (the literal itself only reads
		// variables, so nothing can have changed them)
		path := enclosingPath(u.file, u.sel)
		var stmt ast.Stmt
		si := -1
		for i, nd := range path {
			if st, ok := nd.(ast.Stmt); ok {
				stmt, si = st, i
				break
			}
		}
		if stmt != nil && si+1 < len(path) {
			inBlock := false
			switch path[si+1].(type) {
			case *ast.BlockStmt, *ast.CaseClause, *ast.CommClause:
				inBlock = true
			}
			simple := false
			switch stmt.(type) {
			case *ast.ReturnStmt, *ast.AssignStmt, *ast.ExprStmt:
				simple = true
			}
			callBefore := false
			ast.Inspect(stmt, func(n ast.Node) bool {
				if n == nil {
					return true
				}
				if n.Pos() >= u.sel.Pos() {
					return false
				}
				if c, ok := n.(*ast.CallExpr); ok && c.End() <= u.sel.Pos() {
					callBefore = true
				}
				if _, ok := n.(*ast.FuncLit); ok {
					return false
				}
				return true
			})
			direct := false
			if rs, ok := stmt.(*ast.ReturnStmt); ok && len(rs.Results) == 1 && ast.Unparen(rs.Results[0]) == ast.Expr(u.sel) {
				direct = true // the IIFE form is inlined well there
			}
			if inBlock && simple && !callBefore && !direct {
				lit2 := fmt.Sprintf("%s { %s%s.%s(%s) }", ftype, ret, rv, u.sel.Sel.Name, strings.Join(args, ", "))
				out := applyTextEdits(content, []textEdit{
					{tf.Offset(u.sel.Pos()), tf.Offset(u.sel.End()), lit2},
					{tf.Offset(stmt.Pos()), tf.Offset(stmt.Pos()), rv + " := " + litSrc + "\n"},
				})
				return out, fmt.Sprintf("bound the literal receiver of the method value .%s at %s to a variable declared before the statement", u.sel.Sel.Name, u.pkg.Fset.Position(u.sel.Pos())), nil
			}
		}
		text := fmt.Sprintf("func() %s { %s := %s; return %s { %s%s.%s(%s) } }()", ftype, rv, litSrc, ftype, ret, rv, u.sel.Sel.Name, strings.Join(args, ", "))
		out := applyTextEdits(content, []textEdit{{tf.Offset(u.sel.Pos()), tf.Offset(u.sel.End()), text}})
		return out, fmt.Sprintf("bound the literal receiver of the method value .%s at %s to a variable", u.sel.Sel.Name, u.pkg.Fset.Position(u.sel.Pos())), nil
	}
	if !neverReassigned(info, u.encl, info.Uses[id]) {
		return nil, "", fmt.Errorf("receiver %s may change", id.Name)
	}
	_, ptrRecv := u.fn.Type().(*types.Signature).Recv().Type().(*types.Pointer)
	switch info.TypeOf(u.sel.X).Underlying().(type) {
	case *types.Interface:
	case *types.Pointer:
		if !ptrRecv {
			return nil, "", fmt.Errorf("value-receiver method taken through a pointer (copies *p when evaluated)")
		}
	default:
		// a pointer-receiver method of an addressable variable binds &v: the same object whenever it is called.
		// A value-receiver method copies the receiver when the method value is evaluated: the same as reading
		// it at the call only if the variable's value never changes at all
		if !ptrRecv && !neverMutated(info, u.encl, info.Uses[id]) {
			return nil, "", fmt.Errorf("method value with a copied receiver that may change")
		}
	}
	sig := u.fn.Type().(*types.Signature)
	if sig.Variadic() {
		return nil, "", fmt.Errorf("variadic method")
	}
	// type strings relative to the file: only types whose packages are already imported under their own name
	fileImports := map[string]string{}
	for _, imp := range u.file.Imports {
		var pn *types.PkgName
		if imp.Name != nil {
			pn, _ = info.Defs[imp.Name].(*types.PkgName)
		} else {
			pn, _ = info.Implicits[imp].(*types.PkgName)
		}
		if pn != nil {
			fileImports[pn.Imported().Path()] = pn.Name()
		}
	}
	var qerr error
	qual := func(p *types.Package) string {
		if p == u.pkg.Types {
			return ""
		}
		if n, ok := fileImports[p.Path()]; ok && n != "." && n != "_" {
			return n
		}
		qerr = fmt.Errorf("package %s is not imported in the file", p.Path())
		return p.Name()
	}
	var params, args []string
	for i := 0; i < sig.Params().Len(); i++ {
		params = append(params, fmt.Sprintf("a%d__mv %s", i, types.TypeString(sig.Params().At(i).Type(), qual)))
		args = append(args, fmt.Sprintf("a%d__mv", i))
	}
	res := ""
	ret := ""
	if sig.Results().Len() > 0 {
		var rs []string
		for i := 0; i < sig.Results().Len(); i++ {
			rs = append(rs, types.TypeString(sig.Results().At(i).Type(), qual))
		}
		res = " (" + strings.Join(rs, ", ") + ")"
		ret = "return "
	}
	if qerr != nil {
		return nil, "", qerr
	}
	tf := u.pkg.Fset.File(u.file.Pos())
	src := string(content[tf.Offset(u.sel.Pos()):tf.Offset(u.sel.End())])
	lit := fmt.Sprintf("func(%s)%s { %s%s(%s) }", strings.Join(params, ", "), res, ret, src, strings.Join(args, ", "))
	out := applyTextEdits(content, []textEdit{{tf.Offset(u.sel.Pos()), tf.Offset(u.sel.End()), lit}})
	return out, fmt.Sprintf("expanded the method value %s at %s into a function literal", src, u.pkg.Fset.Position(u.sel.Pos())), nil
}

// neverMutated: the variable is never re-assigned, none of its parts is assigned, its address is never
// taken, explicitly or by calling a pointer-receiver method on it.
func neverMutated(info *types.Info, fn *ast.FuncDecl, obj types.Object) bool {
	if !neverReassigned(info, fn, obj) {
		return false
	}
	root := func(e ast.Expr) types.Object {
		for {
			switch x := ast.Unparen(e).(type) {
			case *ast.SelectorExpr:
				if sel := info.Selections[x]; sel != nil && sel.Indirect() {
					return nil // through a pointer: another object
				}
				e = x.X
			case *ast.IndexExpr:
				if _, isArr := info.TypeOf(x.X).Underlying().(*types.Array); !isArr {
					return nil
				}
				e = x.X
			case *ast.Ident:
				return info.Uses[x]
			default:
				return nil
			}
		}
	}
	ok := true
	ast.Inspect(fn, func(n ast.Node) bool {
		switch x := n.(type) {
		case *ast.AssignStmt:
			for _, l := range x.Lhs {
				if root(l) == obj {
					ok = false
				}
			}
		case *ast.IncDecStmt:
			if root(x.X) == obj {
				ok = false
			}
		case *ast.UnaryExpr:
			if x.Op == token.AND && root(x.X) == obj {
				ok = false
			}
		case *ast.RangeStmt:
			for _, e := range []ast.Expr{x.Key, x.Value} {
				if e != nil && x.Tok == token.ASSIGN && root(e) == obj {
					ok = false
				}
			}
		case *ast.SliceExpr:
			if _, isArr := info.TypeOf(x.X).Underlying().(*types.Array); isArr && root(x.X) == obj {
				ok = false // slicing an array takes its address
			}
		case *ast.SelectorExpr:
			sel := info.Selections[x]
			if sel == nil || sel.Kind() == types.FieldVal {
				return true
			}
			if f, isF := sel.Obj().(*types.Func); isF {
				if rs := f.Type().(*types.Signature).Recv(); rs != nil {
					if _, ptrRecv := rs.Type().(*types.Pointer); ptrRecv {
						if _, isPtr := info.TypeOf(x.X).Underlying().(*types.Pointer); !isPtr && root(x.X) == obj {
							ok = false // (&v).m()
						}
					}
				}
			}
		}
		return true
	})
	return ok
}

// ---- explicit traversal loops: for k, m := range X { for tk, v := range m { BODY } }  ->  X.Each(func(k, tk, v) { BODY }) ----
//
// The four aggregate maps (Counters, Timers, Gauges, Sets) have an Each method that is exactly this
// pair of loops; the rules identify "the traversal of mm.Counters" by the callback given to Each.  A
// function that has more such loop pairs than on the pinned tree gets them rewritten to the Each form
// (only when the loop body can be a function body: no return, break, goto, label or defer, and the inner
// map variable is not used).

type eachLoop struct {
	outer, inner *ast.RangeStmt
	file         *ast.File
	pkg          *packages.Package
	encl         string
	elem         types.Type
}

// eachMethodIsPlainTraversal: func (c T) Each(f func(string, string, E)) { for k, m := range c { for tk, v := range m { f(k, tk, v) } } }
func eachMethodIsPlainTraversal(pkgs []*packages.Package, m *types.Func) bool {
	for _, d := range moduleDecls(pkgs) {
		if d.fn != m {
			continue
		}
		if d.decl.Recv == nil || len(d.decl.Recv.List) != 1 || len(d.decl.Recv.List[0].Names) != 1 || len(d.decl.Body.List) != 1 {
			return false
		}
		recv := d.pkg.TypesInfo.Defs[d.decl.Recv.List[0].Names[0]]
		o, ok := d.decl.Body.List[0].(*ast.RangeStmt)
		if !ok || len(o.Body.List) != 1 || o.Tok != token.DEFINE {
			return false
		}
		if id, isId := o.X.(*ast.Ident); !isId || d.pkg.TypesInfo.Uses[id] != recv {
			return false
		}
		in, ok := o.Body.List[0].(*ast.RangeStmt)
		if !ok || len(in.Body.List) != 1 || in.Tok != token.DEFINE {
			return false
		}
		ov, _ := o.Value.(*ast.Ident)
		ix, _ := in.X.(*ast.Ident)
		if ov == nil || ix == nil || d.pkg.TypesInfo.Uses[ix] != d.pkg.TypesInfo.Defs[ov] {
			return false
		}
		es, ok := in.Body.List[0].(*ast.ExprStmt)
		if !ok {
			return false
		}
		call, ok := es.X.(*ast.CallExpr)
		if !ok || len(call.Args) != 3 {
			return false
		}
		want := []ast.Expr{o.Key, in.Key, in.Value}
		for i, a := range call.Args {
			ai, _ := a.(*ast.Ident)
			wi, _ := want[i].(*ast.Ident)
			if ai == nil || wi == nil || d.pkg.TypesInfo.Uses[ai] != d.pkg.TypesInfo.Defs[wi] {
				return false
			}
		}
		fi, _ := call.Fun.(*ast.Ident)
		if fi == nil || len(d.decl.Type.Params.List) != 1 || len(d.decl.Type.Params.List[0].Names) != 1 {
			return false
		}
		return d.pkg.TypesInfo.Uses[fi] == d.pkg.TypesInfo.Defs[d.decl.Type.Params.List[0].Names[0]]
	}
	return false
}

func eachLoops(pkgs []*packages.Package) map[string][]eachLoop {
	out := map[string][]eachLoop{}
	plain := map[*types.Func]bool{}
	for _, d := range moduleDecls(pkgs) {
		info := d.pkg.TypesInfo
		ast.Inspect(d.decl.Body, func(n ast.Node) bool {
			o, ok := n.(*ast.RangeStmt)
			if !ok || o.Tok != token.DEFINE || o.Value == nil || len(o.Body.List) != 1 {
				return true
			}
			in, ok := o.Body.List[0].(*ast.RangeStmt)
			if !ok || (in.Tok != token.DEFINE && in.Key != nil) {
				return true
			}
			ov, _ := o.Value.(*ast.Ident)
			ix, _ := ast.Unparen(in.X).(*ast.Ident)
			if ov == nil || ix == nil || info.Uses[ix] == nil || info.Uses[ix] != info.Defs[ov] {
				return true
			}
			named, ok := types.Unalias(info.TypeOf(o.X)).(*types.Named)
			if !ok {
				return true
			}
			var each *types.Func
			for i := 0; i < named.NumMethods(); i++ {
				if named.Method(i).Name() == "Each" {
					each = named.Method(i)
				}
			}
			if each == nil {
				return true
			}
			sig := each.Type().(*types.Signature)
			if sig.Params().Len() != 1 || sig.Results().Len() != 0 {
				return true
			}
			cb, ok := sig.Params().At(0).Type().Underlying().(*types.Signature)
			if !ok || cb.Params().Len() != 3 || cb.Results().Len() != 0 {
				return true
			}
			if _, isPtr := sig.Recv().Type().(*types.Pointer); isPtr {
				return true
			}
			if _, seen := plain[each]; !seen {
				plain[each] = eachMethodIsPlainTraversal(pkgs, each)
			}
			if !plain[each] {
				return true
			}
			out[d.fn.FullName()] = append(out[d.fn.FullName()], eachLoop{outer: o, inner: in, file: d.file, pkg: d.pkg, encl: d.fn.FullName(), elem: cb.Params().At(2).Type()})
			return true
		})
	}
	return out
}

func newEachLoops(pkgs []*packages.Package, base map[string]map[string]string, skip map[string]bool) []eachLoop {
	var out []eachLoop
	all := eachLoops(pkgs)
	var encls []string
	for e := range all {
		encls = append(encls, e)
	}
	sort.Strings(encls)
	for _, encl := range encls {
		n := 0
		if b, ok := base[encl]; ok {
			fmt.Sscanf(b["#eachloop"], "%d", &n)
		}
		// a function that had such loops on the pinned tree keeps them (which ones are new is not decidable)
		if n > 0 || skip["eachloop:"+encl] {
			continue
		}
		out = append(out, all[encl]...)
	}
	return out
}

// fileQualifier renders types relative to a file: packages must already be imported under a usable name.
func fileQualifier(pkg *packages.Package, file *ast.File, qerr *error) types.Qualifier {
	info := pkg.TypesInfo
	fileImports := map[string]string{}
	for _, imp := range file.Imports {
		var pn *types.PkgName
		if imp.Name != nil {
			pn, _ = info.Defs[imp.Name].(*types.PkgName)
		} else {
			pn, _ = info.Implicits[imp].(*types.PkgName)
		}
		if pn != nil {
			fileImports[pn.Imported().Path()] = pn.Name()
		}
	}
	return func(p *types.Package) string {
		if p == pkg.Types {
			return ""
		}
		if n, ok := fileImports[p.Path()]; ok && n != "." && n != "_" {
			return n
		}
		*qerr = fmt.Errorf("package %s is not imported in the file", p.Path())
		return p.Name()
	}
}

func eachLoopStep(l eachLoop, content []byte) ([]byte, string, error) {
	info := l.pkg.TypesInfo
	tf := l.pkg.Fset.File(l.file.Pos())
	src := func(n ast.Node) string { return string(content[tf.Offset(n.Pos()):tf.Offset(n.End())]) }
	inner := l.inner
	mObj := info.Defs[l.outer.Value.(*ast.Ident)]
	var bad error
	var eds []textEdit
	// walk the body: depth of enclosing loops / switches decides what an unlabelled break / continue refers to
	var walk func(n ast.Node, loopDepth, breakDepth int)
	walk = func(n ast.Node, loopDepth, breakDepth int) {
		if n == nil || bad != nil {
			return
		}
		switch x := n.(type) {
		case *ast.FuncLit:
			// its own returns; but it must not use the inner map variable either
			ast.Inspect(x, func(m ast.Node) bool {
				if id, ok := m.(*ast.Ident); ok && info.Uses[id] == mObj {
					bad = fmt.Errorf("the per-name map is used in the loop body")
				}
				return true
			})
			return
		case *ast.Ident:
			if info.Uses[x] == mObj {
				bad = fmt.Errorf("the per-name map is used in the loop body")
			}
			return
		case *ast.ReturnStmt:
			bad = fmt.Errorf("return in the loop body")
			return
		case *ast.DeferStmt:
			bad = fmt.Errorf("defer in the loop body")
			return
		case *ast.LabeledStmt:
			bad = fmt.Errorf("label in the loop body")
			return
		case *ast.BranchStmt:
			if x.Label != nil || x.Tok == token.GOTO {
				bad = fmt.Errorf("labelled branch in the loop body")
				return
			}
			switch x.Tok {
			case token.CONTINUE:
				if loopDepth == 0 {
					eds = append(eds, textEdit{tf.Offset(x.Pos()), tf.Offset(x.End()), "return"})
				}
			case token.BREAK:
				if breakDepth == 0 {
					bad = fmt.Errorf("break out of the inner loop")
				}
			}
			return
		case *ast.ForStmt:
			walk(x.Init, loopDepth, breakDepth)
			walk(x.Cond, loopDepth, breakDepth)
			walk(x.Post, loopDepth, breakDepth)
			walk(x.Body, loopDepth+1, breakDepth+1)
			return
		case *ast.RangeStmt:
			walk(x.X, loopDepth, breakDepth)
			walk(x.Body, loopDepth+1, breakDepth+1)
			return
		case *ast.SwitchStmt:
			walk(x.Init, loopDepth, breakDepth)
			walk(x.Tag, loopDepth, breakDepth)
			walk(x.Body, loopDepth, breakDepth+1)
			return
		case *ast.TypeSwitchStmt:
			walk(x.Init, loopDepth, breakDepth)
			walk(x.Assign, loopDepth, breakDepth)
			walk(x.Body, loopDepth, breakDepth+1)
			return
		case *ast.SelectStmt:
			walk(x.Body, loopDepth, breakDepth+1)
			return
		}
		// generic children
		first := true
		ast.Inspect(n, func(m ast.Node) bool {
			if first {
				first = false
				return true
			}
			if m != nil {
				walk(m, loopDepth, breakDepth)
			}
			return false
		})
	}
	walk(inner.Body, 0, 0)
	if bad != nil {
		return nil, "", bad
	}
	name := func(e ast.Expr) string {
		if id, ok := e.(*ast.Ident); ok && e != nil {
			return id.Name
		}
		return "_"
	}
	var qerr error
	qual := fileQualifier(l.pkg, l.file, &qerr)
	elem := types.TypeString(l.elem, qual)
	if qerr != nil {
		return nil, "", qerr
	}
	k1 := "_"
	if l.outer.Key != nil {
		k1 = name(l.outer.Key)
	}
	k2, v := "_", "_"
	if inner.Key != nil {
		k2 = name(inner.Key)
	}
	if inner.Value != nil {
		v = name(inner.Value)
	}
	// body text with the continue edits applied
	bs, be := tf.Offset(inner.Body.Lbrace), tf.Offset(inner.Body.Rbrace)+1
	var rel []textEdit
	for _, e := range eds {
		rel = append(rel, textEdit{e.s - bs, e.e - bs, e.t})
	}
	body := string(applyTextEdits(content[bs:be], rel))
	x := src(l.outer.X)
	if _, isComposite := ast.Unparen(l.outer.X).(*ast.CompositeLit); isComposite {
		x = "(" + x + ")"
	}
	text := fmt.Sprintf("%s.Each(func(%s string, %s string, %s %s) %s)", x, k1, k2, v, elem, body)
	out := applyTextEdits(content, []textEdit{{tf.Offset(l.outer.Pos()), tf.Offset(l.outer.End()), text}})
	return out, fmt.Sprintf("rewrote the traversal loops over %s at %s as a call of Each", x, l.pkg.Fset.Position(l.outer.Pos())), nil
}

// ---- for clauses: for INIT; COND; POST { BODY } with a new helper called in INIT or POST ----
//
// A call in the init or post clause of a for statement cannot be replaced by statements.  The loop is
// written out (same behaviour: POST runs after the body and after every continue):
//
//	{ INIT; loop__N: for COND { body__N: switch { default: BODY' }; POST } }
//
// with  continue -> break body__N  and  break -> break loop__N  for the branches that refer to this loop.

type forClauseUse struct {
	loop *ast.ForStmt
	file *ast.File
	pkg  *packages.Package
	fn   *types.Func
	encl string
}

func forClauseHelperCalls(pkgs []*packages.Package, helpers map[*types.Func]declInfo, skip map[string]bool) []forClauseUse {
	var out []forClauseUse
	for _, d := range moduleDecls(pkgs) {
		info := d.pkg.TypesInfo
		ast.Inspect(d.decl.Body, func(n ast.Node) bool {
			loop, ok := n.(*ast.ForStmt)
			if !ok {
				return true
			}
			for _, clause := range []ast.Stmt{loop.Init, loop.Post} {
				if clause == nil {
					continue
				}
				var hit *types.Func
				ast.Inspect(clause, func(m ast.Node) bool {
					if _, isLit := m.(*ast.FuncLit); isLit {
						return false
					}
					if call, isCall := m.(*ast.CallExpr); isCall {
						if fn, _ := typeutil.Callee(info, call).(*types.Func); fn != nil {
							if _, isNew := helpers[fn.Origin()]; isNew && !skip["forclause:"+fn.FullName()] {
								hit = fn
							}
						}
					}
					return true
				})
				if hit != nil {
					out = append(out, forClauseUse{loop: loop, file: d.file, pkg: d.pkg, fn: hit, encl: d.fn.FullName()})
					break
				}
			}
			return true
		})
	}
	return out
}

var forClauseCounter int

func forClauseStep(u forClauseUse, content []byte) ([]byte, string, error) {
	tf := u.pkg.Fset.File(u.file.Pos())
	src := func(n ast.Node) string { return string(content[tf.Offset(n.Pos()):tf.Offset(n.End())]) }
	path := enclosingPath(u.file, u.loop)
	if len(path) >= 2 {
		if _, labelled := path[1].(*ast.LabeledStmt); labelled {
			return nil, "", fmt.Errorf("labelled loop")
		}
		switch path[1].(type) {
		case *ast.BlockStmt, *ast.CaseClause, *ast.CommClause:
		default:
			return nil, "", fmt.Errorf("loop is not a statement of a block")
		}
	}
	forClauseCounter++
	loopL, bodyL := fmt.Sprintf("loop__f%d", forClauseCounter), fmt.Sprintf("body__f%d", forClauseCounter)
	var eds []textEdit
	var bad error
	usedLoopLabel := false
	usedBodyLabel := false
	var walk func(n ast.Node, loopDepth, breakDepth int)
	walk = func(n ast.Node, loopDepth, breakDepth int) {
		if n == nil || bad != nil {
			return
		}
		switch x := n.(type) {
		case *ast.FuncLit:
			return
		case *ast.BranchStmt:
			if x.Label != nil || x.Tok == token.GOTO || x.Tok == token.FALLTHROUGH {
				return // refers to another statement
			}
			switch x.Tok {
			case token.CONTINUE:
				if loopDepth == 0 {
					eds = append(eds, textEdit{tf.Offset(x.Pos()), tf.Offset(x.End()), "break " + bodyL})
					usedBodyLabel = true
				}
			case token.BREAK:
				if breakDepth == 0 {
					eds = append(eds, textEdit{tf.Offset(x.Pos()), tf.Offset(x.End()), "break " + loopL})
					usedLoopLabel = true
				}
			}
			return
		case *ast.ForStmt:
			walk(x.Body, loopDepth+1, breakDepth+1)
			return
		case *ast.RangeStmt:
			walk(x.Body, loopDepth+1, breakDepth+1)
			return
		case *ast.SwitchStmt:
			walk(x.Body, loopDepth, breakDepth+1)
			return
		case *ast.TypeSwitchStmt:
			walk(x.Body, loopDepth, breakDepth+1)
			return
		case *ast.SelectStmt:
			walk(x.Body, loopDepth, breakDepth+1)
			return
		}
		first := true
		ast.Inspect(n, func(m ast.Node) bool {
			if first {
				first = false
				return true
			}
			if m != nil {
				walk(m, loopDepth, breakDepth)
			}
			return false
		})
	}
	walk(u.loop.Body, 0, 0)
	if bad != nil {
		return nil, "", bad
	}
	bs, be := tf.Offset(u.loop.Body.Lbrace), tf.Offset(u.loop.Body.Rbrace)+1
	var rel []textEdit
	for _, e := range eds {
		rel = append(rel, textEdit{e.s - bs, e.e - bs, e.t})
	}
	body := string(applyTextEdits(content[bs:be], rel))
	var b strings.Builder
	b.WriteString("{\n")
	if u.loop.Init != nil {
		b.WriteString(src(u.loop.Init) + "\n")
	}
	if usedLoopLabel {
		b.WriteString(loopL + ":\n")
	}
	b.WriteString("for ")
	if u.loop.Cond != nil {
		b.WriteString(src(u.loop.Cond) + " ")
	}
	if usedBodyLabel {
		b.WriteString("{\n" + bodyL + ":\nswitch {\ndefault:\n" + body + "\n}\n")
	} else if usedLoopLabel {
		// an unlabelled break of the body now names the loop; the body can stand as it is
		b.WriteString("{\n" + body + "\n")
	} else {
		b.WriteString("{\n" + body + "\n")
	}
	if u.loop.Post != nil {
		b.WriteString(src(u.loop.Post) + "\n")
	}
	b.WriteString("}\n}")
	out := applyTextEdits(content, []textEdit{{tf.Offset(u.loop.Pos()), tf.Offset(u.loop.End()), b.String()}})
	return out, fmt.Sprintf("wrote out the for clauses at %s (a new helper is called in the init or post statement)", u.pkg.Fset.Position(u.loop.Pos())), nil
}
