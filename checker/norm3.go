package main

// NORM, part 3: local closures.
//
// "Extract a local helper closure" (v := func(...) {...}; ... v(a) ...) is the in-function form of
// "extract function".  Closure variables that are not in the inventory recorded for the pinned tree
// (baseline_closures.txt: enclosing declared function + variable name) and that are never
// re-assigned have their direct calls inlined with the statement-level inliner; a closure capturesits
// free variables by reference, so executing its body at the call site (where every free identifier
// must resolve to the same object) is the same computation.  A definition whose calls are all gone
// is removed (evaluating a function literal has no effect), so no dead literal is left behind.
// A local "f := x.M" (method value of a never re-assigned variable) that is only called is reduced
// to the method calls x.M(...) in the same way.

import (
	_ "embed"
	"fmt"
	"go/ast"
	"go/token"
	"go/types"
	"sort"
	"strings"

	"golang.org/x/tools/go/packages"
)

//go:embed baseline_closures.txt
var baselineClosuresTxt string

// baselineClosures: enclosing function -> closure variable name -> its function type.
func baselineClosures() map[string]map[string]string {
	m := map[string]map[string]string{}
	for _, l := range strings.Split(baselineClosuresTxt, "\n") {
		l = strings.TrimSpace(l)
		if l == "" || strings.HasPrefix(l, "#") {
			continue
		}
		f := strings.Split(l, "\t")
		if len(f) < 2 {
			continue
		}
		if m[f[0]] == nil {
			m[f[0]] = map[string]string{}
		}
		sig := ""
		if len(f) > 2 {
			sig = f[2]
		}
		m[f[0]][f[1]] = sig
	}
	return m
}

type closureVar struct {
	obj     *types.Var
	lit     *ast.FuncLit      // nil for a method value
	mval    *ast.SelectorExpr // method value x.M
	rhs     ast.Expr          // the whole right-hand side element (possibly a conversion around lit)
	def     ast.Stmt          // the defining statement
	single  bool              // def declares only this variable and rhs is exactly lit/mval
	encl    string            // full name of the enclosing declared function
	enclFn  *ast.FuncDecl
	file    *ast.File
	pkg     *packages.Package
	calls   []*ast.CallExpr // direct calls v(...)
	blanks  int             // uses on the right of an all-blank assignment
	others  int             // any other use
	written bool            // assigned after its definition or address taken
}

func unwrapFuncExpr(e ast.Expr) ast.Expr {
	for {
		switch x := e.(type) {
		case *ast.ParenExpr:
			e = x.X
		case *ast.CallExpr:
			// conversion (T)(x) to a function type
			if len(x.Args) != 1 {
				return e
			}
			switch ast.Unparen(x.Fun).(type) {
			case *ast.FuncType:
				e = x.Args[0]
			default:
				return e
			}
		default:
			return e
		}
	}
}

// closureVars finds the local variables of module functions that are defined once by a function
// literal (or a method value) together with their uses.
func closureVars(pkgs []*packages.Package) []*closureVar {
	var out []*closureVar
	for _, d := range moduleDecls(pkgs) {
		info := d.pkg.TypesInfo
		byObj := map[*types.Var]*closureVar{}
		add := func(id *ast.Ident, rhs ast.Expr, def ast.Stmt, single bool) {
			if id.Name == "_" {
				return
			}
			obj, _ := info.Defs[id].(*types.Var)
			if obj == nil {
				return
			}
			cv := &closureVar{obj: obj, rhs: rhs, def: def, encl: d.fn.FullName(), enclFn: d.decl, file: d.file, pkg: d.pkg}
			switch x := unwrapFuncExpr(rhs).(type) {
			case *ast.FuncLit:
				cv.lit = x
				cv.single = single && ast.Unparen(rhs) == ast.Expr(x)
			case *ast.SelectorExpr:
				if sel := info.Selections[x]; sel != nil && sel.Kind() == types.MethodVal {
					cv.mval = x
					cv.single = single
				} else {
					return
				}
			default:
				return
			}
			byObj[obj] = cv
			out = append(out, cv)
		}
		ast.Inspect(d.decl.Body, func(n ast.Node) bool {
			switch x := n.(type) {
			case *ast.AssignStmt:
				if x.Tok == token.DEFINE && len(x.Lhs) == len(x.Rhs) {
					for i := range x.Lhs {
						if id, ok := x.Lhs[i].(*ast.Ident); ok {
							add(id, x.Rhs[i], x, len(x.Lhs) == 1)
						}
					}
				}
			case *ast.DeclStmt:
				if g, ok := x.Decl.(*ast.GenDecl); ok && g.Tok == token.VAR && len(g.Specs) == 1 {
					if vs, ok := g.Specs[0].(*ast.ValueSpec); ok && len(vs.Names) == len(vs.Values) {
						for i := range vs.Names {
							add(vs.Names[i], vs.Values[i], x, len(vs.Names) == 1)
						}
					}
				}
			}
			return true
		})
		if len(byObj) == 0 {
			continue
		}
		// uses
		var stack []ast.Node
		ast.Inspect(d.decl.Body, func(n ast.Node) bool {
			if n == nil {
				stack = stack[:len(stack)-1]
				return true
			}
			stack = append(stack, n)
			id, ok := n.(*ast.Ident)
			if !ok {
				return true
			}
			obj, _ := info.Uses[id].(*types.Var)
			cv := byObj[obj]
			if cv == nil {
				return true
			}
			parent := stack[len(stack)-2]
			switch p := parent.(type) {
			case *ast.CallExpr:
				if p.Fun == ast.Expr(id) {
					cv.calls = append(cv.calls, p)
					return true
				}
			case *ast.AssignStmt:
				onLeft := false
				for _, l := range p.Lhs {
					if l == ast.Expr(id) {
						onLeft = true
					}
				}
				if onLeft {
					cv.written = true
					return true
				}
				allBlank := true
				for _, l := range p.Lhs {
					if b, ok := l.(*ast.Ident); !ok || b.Name != "_" {
						allBlank = false
					}
				}
				if allBlank && p.Tok == token.ASSIGN {
					cv.blanks++
					return true
				}
			case *ast.UnaryExpr:
				if p.Op == token.AND {
					cv.written = true
				}
			}
			cv.others++
			return true
		})
	}
	return out
}

// iifeCalls: calls whose function operand is a function literal (immediately invoked), other than the
// operands of go / defer statements, per enclosing declared function.
func iifeCalls(pkgs []*packages.Package) map[string][]iifeCall {
	out := map[string][]iifeCall{}
	for _, d := range moduleDecls(pkgs) {
		var stack []ast.Node
		ast.Inspect(d.decl.Body, func(n ast.Node) bool {
			if n == nil {
				stack = stack[:len(stack)-1]
				return true
			}
			stack = append(stack, n)
			call, ok := n.(*ast.CallExpr)
			if !ok {
				return true
			}
			lit, ok := ast.Unparen(call.Fun).(*ast.FuncLit)
			if !ok {
				return true
			}
			if len(stack) >= 2 {
				switch stack[len(stack)-2].(type) {
				case *ast.GoStmt, *ast.DeferStmt:
					return true
				}
			}
			out[d.fn.FullName()] = append(out[d.fn.FullName()], iifeCall{call: call, lit: lit, file: d.file, pkg: d.pkg, encl: d.fn.FullName()})
			return true
		})
	}
	return out
}

type iifeCall struct {
	call *ast.CallExpr
	lit  *ast.FuncLit
	file *ast.File
	pkg  *packages.Package
	encl string
}

func closureInventory(pkgs []*packages.Package) []string {
	seen := map[string]bool{}
	var out []string
	for encl, cs := range iifeCalls(pkgs) {
		out = append(out, fmt.Sprintf("%s\t#iife\t%d", encl, len(cs)))
	}
	for _, cv := range closureVars(pkgs) {
		l := cv.encl + "\t" + cv.obj.Name() + "\t" + closureSig(cv)
		if !seen[l] {
			seen[l] = true
			out = append(out, l)
		}
	}
	sort.Strings(out)
	return out
}

// newClosureVars: closure variables that do not exist on the pinned tree.  Within one enclosing
// function the variables whose names are recorded are the old ones; the others are new provided
// their number equals the surplus over the recorded count (otherwise a recorded closure may just
// have been renamed and nothing is touched).
func closureSig(cv *closureVar) string {
	return types.TypeString(cv.obj.Type(), func(p *types.Package) string { return p.Path() })
}

func newClosureVars(pkgs []*packages.Package, base map[string]map[string]string, skip map[string]bool) []*closureVar {
	byEncl := map[string][]*closureVar{}
	for _, cv := range closureVars(pkgs) {
		byEncl[cv.encl] = append(byEncl[cv.encl], cv)
	}
	var out []*closureVar
	for encl, cvs := range byEncl {
		b := base[encl]
		var unknown []*closureVar
		names := map[string]bool{}
		for _, cv := range cvs {
			names[cv.obj.Name()] = true
		}
		for _, cv := range cvs {
			if _, known := b[cv.obj.Name()]; !known {
				unknown = append(unknown, cv)
			}
		}
		// a recorded closure that is gone under its name may be one of the unknown ones (renamed): an
		// unknown closure of the same function type as a missing one is left alone
		missingSigs := map[string]bool{}
		for n, sig := range b {
			if !names[n] {
				missingSigs[sig] = true
			}
		}
		for _, cv := range unknown {
			if missingSigs[closureSig(cv)] || missingSigs[""] {
				continue
			}
			if cv.written || skip[closureKey(cv)] {
				continue
			}
			out = append(out, cv)
		}
	}
	sort.Slice(out, func(i, j int) bool { return out[i].obj.Pos() < out[j].obj.Pos() })
	return out
}

func closureKey(cv *closureVar) string { return "closure:" + cv.encl + ":" + cv.obj.Name() }

// neverReassigned: the variable behind id is a parameter or local that is assigned only by its
// declaration and whose address is not taken inside fn.
func neverReassigned(info *types.Info, fn *ast.FuncDecl, obj types.Object) bool {
	v, ok := obj.(*types.Var)
	if !ok || v.IsField() || v.Pkg() == nil || v.Parent() == v.Pkg().Scope() {
		return false
	}
	ok = true
	ast.Inspect(fn, func(n ast.Node) bool {
		switch x := n.(type) {
		case *ast.AssignStmt:
			for _, l := range x.Lhs {
				if id, isId := l.(*ast.Ident); isId && info.Uses[id] == obj {
					ok = false
				}
			}
		case *ast.IncDecStmt:
			if id, isId := x.X.(*ast.Ident); isId && info.Uses[id] == obj {
				ok = false
			}
		case *ast.UnaryExpr:
			if id, isId := ast.Unparen(x.X).(*ast.Ident); isId && x.Op == token.AND && info.Uses[id] == obj {
				ok = false
			}
		case *ast.RangeStmt:
			for _, e := range []ast.Expr{x.Key, x.Value} {
				if id, isId := e.(*ast.Ident); isId && x.Tok == token.ASSIGN && info.Uses[id] == obj {
					ok = false
				}
			}
		}
		return true
	})
	return ok
}

// closureStep performs one normalisation step for the closure variable and returns the new file
// content; done=false means nothing could be done (the variable is then skipped).
func closureStep(cv *closureVar, content []byte) (out []byte, what string, err error) {
	fset := cv.pkg.Fset
	tf := fset.File(cv.file.Pos())
	src := func(n ast.Node) string { return string(content[tf.Offset(n.Pos()):tf.Offset(n.End())]) }
	// (a) no call left: remove the definition
	if len(cv.calls) == 0 {
		if cv.others > 0 {
			return nil, "", fmt.Errorf("used as a value")
		}
		if cv.single && cv.blanks <= 1 {
			eds := []textEdit{{tf.Offset(cv.def.Pos()), tf.Offset(cv.def.End()), ""}}
			// the blank use "_ = v"
			var blank ast.Stmt
			ast.Inspect(cv.enclFn.Body, func(n ast.Node) bool {
				if as, ok := n.(*ast.AssignStmt); ok && as.Tok == token.ASSIGN && len(as.Lhs) == 1 && len(as.Rhs) == 1 {
					if id, ok := as.Rhs[0].(*ast.Ident); ok && cv.pkg.TypesInfo.Uses[id] == types.Object(cv.obj) {
						blank = as
					}
				}
				return true
			})
			if cv.blanks == 1 {
				if blank == nil {
					return nil, "", fmt.Errorf("blank use not found")
				}
				eds = append(eds, textEdit{tf.Offset(blank.Pos()), tf.Offset(blank.End()), ""})
			}
			return applyTextEdits(content, eds), "removed the dead definition of " + cv.obj.Name(), nil
		}
		if cv.lit != nil && ast.Unparen(cv.rhs) != ast.Expr(cv.lit) {
			// a converted literal among several bindings: (T)(func...) -> (T)(nil)
			return applyTextEdits(content, []textEdit{{tf.Offset(cv.lit.Pos()), tf.Offset(cv.lit.End()), "nil"}}), "dropped the dead literal bound to " + cv.obj.Name(), nil
		}
		return nil, "", fmt.Errorf("dead definition in a multi-variable declaration")
	}
	if cv.mval != nil && cv.blanks == 0 {
		at := tf.Offset(cv.def.End())
		return applyTextEdits(content, []textEdit{{at, at, "\n_ = " + cv.obj.Name() + "\n"}}), "pinned " + cv.obj.Name(), nil
	}
	// (c) inline one call (the last one in the file first)
	calls := append([]*ast.CallExpr{}, cv.calls...)
	sort.Slice(calls, func(i, j int) bool { return calls[i].Pos() > calls[j].Pos() })
	var firstErr error
	for _, call := range calls {
		if cv.mval != nil {
			// v(args) -> x.M(args)
			root := ast.Unparen(cv.mval.X)
			id, ok := root.(*ast.Ident)
			if !ok {
				return nil, "", fmt.Errorf("method value of a non-variable")
			}
			obj := cv.pkg.TypesInfo.Uses[id]
			if !neverReassigned(cv.pkg.TypesInfo, cv.enclFn, obj) {
				return nil, "", fmt.Errorf("receiver %s of the method value may change", id.Name)
			}
			if sel := cv.pkg.TypesInfo.Selections[cv.mval]; sel == nil || len(sel.Index()) != 1 {
				return nil, "", fmt.Errorf("promoted method value")
			}
			// a value receiver is copied when the method value is made; only pointer and interface
			// receivers denote the same object later
			switch cv.pkg.TypesInfo.TypeOf(cv.mval.X).Underlying().(type) {
			case *types.Pointer, *types.Interface:
			default:
				return nil, "", fmt.Errorf("method value with a copied receiver")
			}
			inner := cv.pkg.Types.Scope().Innermost(call.Pos())
			if inner == nil {
				return nil, "", fmt.Errorf("no scope")
			}
			if _, got := inner.LookupParent(id.Name, call.Pos()); got != obj {
				if firstErr == nil {
					firstErr = fmt.Errorf("receiver %s is shadowed at the call", id.Name)
				}
				continue
			}
			return applyTextEdits(content, []textEdit{{tf.Offset(call.Fun.Pos()), tf.Offset(call.Fun.End()), src(cv.mval)}}), "reduced a call of the method value " + cv.obj.Name(), nil
		}
		break
	}
	if cv.mval != nil {
		return nil, "", firstErr
	}
	// function literal: inline as many calls as possible in one step, bottom-up, as long as the
	// replaced statements lie entirely before everything changed so far (offsets stay valid)
	sig, _ := cv.pkg.TypesInfo.TypeOf(cv.lit).(*types.Signature)
	if sig == nil {
		return nil, "", fmt.Errorf("no signature")
	}
	decl := &ast.FuncDecl{Type: cv.lit.Type, Body: cv.lit.Body}
	stmtOf := func(call *ast.CallExpr) ast.Node {
		p := enclosingPath(cv.file, call)
		for i := 0; i+1 < len(p); i++ {
			switch p[i+1].(type) {
			case *ast.BlockStmt, *ast.CaseClause, *ast.CommClause:
				return p[i]
			}
		}
		return nil
	}
	cur := content
	limit := len(content)
	n := 0
	var places []string
	for _, call := range calls {
		st := stmtOf(call)
		if st == nil || tf.Offset(st.End()) > limit || tf.Offset(cv.lit.End()) > tf.Offset(st.Pos()) {
			break
		}
		res, err := stmtInlineSig(cv.pkg, cv.file, call, cur, cv.pkg, decl, cur, sig)
		if err != nil {
			if firstErr == nil {
				firstErr = err
			}
			break
		}
		start := tf.Offset(st.Pos())
		if len(res) < start || string(res[:start]) != string(cur[:start]) {
			// something before the statement changed (an import was added): finish this step here
			if n == 0 {
				return res, fmt.Sprintf("inlined the local closure %s at %s", cv.obj.Name(), fset.Position(call.Pos())), nil
			}
			break
		}
		cur, limit = res, start
		n++
		places = append(places, fmt.Sprint(fset.Position(call.Pos()).Line))
	}
	if n == len(calls) && cv.others == 0 && cv.single && tf.Offset(cv.def.End()) <= limit {
		eds := []textEdit{{tf.Offset(cv.def.Pos()), tf.Offset(cv.def.End()), ""}}
		if cv.blanks > 0 {
			goto partial
		}
		return applyTextEdits(cur, eds), fmt.Sprintf("inlined the local closure %s of %s at lines %s and removed its definition", cv.obj.Name(), cv.encl, strings.Join(places, ",")), nil
	}
partial:
	if cv.blanks == 0 {
		at := tf.Offset(cv.def.End())
		return applyTextEdits(content, []textEdit{{at, at, "\n_ = " + cv.obj.Name() + "\n"}}), "pinned " + cv.obj.Name(), nil
	}
	if n > 0 {
		return cur, fmt.Sprintf("inlined the local closure %s of %s at lines %s", cv.obj.Name(), cv.encl, strings.Join(places, ",")), nil
	}
	for _, call := range calls {
		if res, err2 := hoistCall(cv.pkg, cv.file, call, content); err2 == nil {
			return res, fmt.Sprintf("hoisted the call of the local closure %s at %s", cv.obj.Name(), fset.Position(call.Pos())), nil
		}
	}
	return nil, "", firstErr
}


// newIIFEs: immediately invoked function literals in functions that have more of them than on the
// pinned tree (typically the residue of inlining a helper that takes a function argument).
func newIIFEs(pkgs []*packages.Package, base map[string]map[string]string, skip map[string]bool) []iifeCall {
	var out []iifeCall
	all := iifeCalls(pkgs)
	var encls []string
	for e := range all {
		encls = append(encls, e)
	}
	sort.Strings(encls)
	for _, encl := range encls {
		cs := all[encl]
		n := 0
		if b, ok := base[encl]; ok {
			fmt.Sscanf(b["#iife"], "%d", &n)
		}
		if len(cs) <= n || skip["iife:"+encl] {
			continue
		}
		out = append(out, cs...)
	}
	return out
}

// iifeStep inlines one immediately invoked literal of the file (the last one first).
func iifeStep(c iifeCall, content []byte) ([]byte, string, error) {
	sig, _ := c.pkg.TypesInfo.TypeOf(c.lit).(*types.Signature)
	if sig == nil {
		return nil, "", fmt.Errorf("no signature")
	}
	decl := &ast.FuncDecl{Type: c.lit.Type, Body: c.lit.Body}
	res, err := stmtInlineSig(c.pkg, c.file, c.call, content, c.pkg, decl, content, sig)
	if err != nil {
		return nil, "", err
	}
	return res, fmt.Sprintf("inlined an immediately invoked function literal in %s at %s", c.encl, c.pkg.Fset.Position(c.call.Pos())), nil
}
