package main

// NORM, part 4: local state structs of new types are taken apart into local variables.
//
// "Move the closure's captured variables into a small struct and make the closures methods" is a common
// refactoring.  Once the methods have been inlined back (method values, calls), the struct variable is only
// used through its fields: v.f.  A variable of a struct type that did not exist on the pinned tree, declared
// from a composite literal and used only in field selections (never passed on, assigned as a whole, or
// address-taken as a whole) is replaced by one local variable per field: v.f -> v__f.  The fields of a struct
// that does not escape ARE separate variables; the rewriting changes no behaviour, and the rules find the
// counters, channels and maps they know as locals again.

import (
	_ "embed"
	"fmt"
	"go/ast"
	"go/token"
	"go/types"
	"sort"
	"strings"

	"golang.org/x/tools/go/packages"
)

//go:embed baseline_types.txt
var baselineTypesTxt string

func baselineTypes() map[string]bool {
	m := map[string]bool{}
	for _, l := range strings.Split(baselineTypesTxt, "\n") {
		l = strings.TrimSpace(l)
		if l != "" && !strings.HasPrefix(l, "#") {
			m[l] = true
		}
	}
	return m
}

// typeInventory lists the named types declared in the module's packages.
func typeInventory(pkgs []*packages.Package) []string {
	var out []string
	for _, p := range pkgs {
		if !strings.HasPrefix(p.PkgPath, Mod) {
			continue
		}
		sc := p.Types.Scope()
		for _, n := range sc.Names() {
			if tn, ok := sc.Lookup(n).(*types.TypeName); ok {
				out = append(out, p.PkgPath+"."+tn.Name())
			}
		}
	}
	sort.Strings(out)
	return out
}

type sroaVar struct {
	obj   *types.Var
	def   ast.Stmt
	lit   *ast.CompositeLit
	st    *types.Struct
	named *types.Named
	encl  *ast.FuncDecl
	file  *ast.File
	pkg   *packages.Package
	uses  []*ast.SelectorExpr
}

func sroaCandidates(pkgs []*packages.Package, baseTypes map[string]bool, skip map[string]bool) []sroaVar {
	var out []sroaVar
	for _, d := range moduleDecls(pkgs) {
		info := d.pkg.TypesInfo
		ast.Inspect(d.decl.Body, func(n ast.Node) bool {
			var id *ast.Ident
			var lit *ast.CompositeLit
			var defStmt ast.Stmt
			var declType types.Type
			switch x := n.(type) {
			case *ast.AssignStmt:
				if x.Tok != token.DEFINE || len(x.Lhs) != 1 || len(x.Rhs) != 1 {
					return true
				}
				i2, ok := x.Lhs[0].(*ast.Ident)
				if !ok || i2.Name == "_" {
					return true
				}
				rhs := ast.Unparen(x.Rhs[0])
				if u, isU := rhs.(*ast.UnaryExpr); isU && u.Op == token.AND {
					rhs = ast.Unparen(u.X)
				}
				l2, ok := rhs.(*ast.CompositeLit)
				if !ok {
					return true
				}
				id, lit, defStmt, declType = i2, l2, x, info.TypeOf(l2)
			case *ast.DeclStmt:
				// var v T
				gd, ok := x.Decl.(*ast.GenDecl)
				if !ok || gd.Tok != token.VAR || len(gd.Specs) != 1 {
					return true
				}
				vs, ok := gd.Specs[0].(*ast.ValueSpec)
				if !ok || len(vs.Names) != 1 || vs.Type == nil || len(vs.Values) != 0 || vs.Names[0].Name == "_" {
					return true
				}
				id, defStmt, declType = vs.Names[0], x, info.TypeOf(vs.Type)
			default:
				return true
			}
			if declType == nil {
				return true
			}
			named, ok := types.Unalias(declType).(*types.Named)
			if !ok || named.Obj().Pkg() == nil || !strings.HasPrefix(named.Obj().Pkg().Path(), Mod) || named.TypeArgs().Len() > 0 {
				return true
			}
			st, ok := named.Underlying().(*types.Struct)
			if !ok || baseTypes[named.Obj().Pkg().Path()+"."+named.Obj().Name()] {
				return true
			}
			obj, _ := info.Defs[id].(*types.Var)
			if obj == nil || skip["sroa:"+d.fn.FullName()+":"+id.Name] {
				return true
			}
			// keyed literal (or empty)
			if lit != nil {
				// keyed, or positional with every field given
				keyed, positional := 0, 0
				for _, el := range lit.Elts {
					if _, isKV := el.(*ast.KeyValueExpr); isKV {
						keyed++
					} else {
						positional++
					}
				}
				if keyed > 0 && positional > 0 {
					return true
				}
				if positional > 0 && positional != st.NumFields() {
					return true
				}
			}
			// every other occurrence is v.f with f a direct field
			v := sroaVar{obj: obj, def: defStmt, lit: lit, st: st, named: named, encl: d.decl, file: d.file, pkg: d.pkg}
			okUses := true
			var stack []ast.Node
			ast.Inspect(d.decl.Body, func(m ast.Node) bool {
				if m == nil {
					stack = stack[:len(stack)-1]
					return true
				}
				stack = append(stack, m)
				uid, isId := m.(*ast.Ident)
				if !isId || info.Uses[uid] != types.Object(obj) {
					return true
				}
				if len(stack) < 2 {
					okUses = false
					return true
				}
				sel, isSel := stack[len(stack)-2].(*ast.SelectorExpr)
				if !isSel || sel.X != ast.Expr(uid) {
					okUses = false
					return true
				}
				s := info.Selections[sel]
				if s == nil || s.Kind() != types.FieldVal || len(s.Index()) != 1 {
					okUses = false
					return true
				}
				// &v.f as an operand is fine (address of a local); v.f = ... is fine
				v.uses = append(v.uses, sel)
				return true
			})
			if okUses {
				out = append(out, v)
			}
			return true
		})
	}
	return out
}

func sroaStep(v sroaVar, content []byte) ([]byte, string, error) {
	tf := v.pkg.Fset.File(v.file.Pos())
	src := func(n ast.Node) string { return string(content[tf.Offset(n.Pos()):tf.Offset(n.End())]) }
	var qerr error
	qual := fileQualifier(v.pkg, v.file, &qerr)
	var elts []ast.Expr
	if v.lit != nil {
		elts = v.lit.Elts
	}
	// a field keeps its own name as a local when nothing else in the function is called that (the usual case:
	// the fields were named after the locals they replaced); otherwise it is prefixed with the variable's name
	taken := map[string]bool{}
	ast.Inspect(v.encl, func(n ast.Node) bool {
		if id, ok := n.(*ast.Ident); ok {
			// occurrences as the selected field of this very variable do not count
			taken[id.Name] = true
		}
		return true
	})
	selOnly := map[string]bool{}
	for i := 0; i < v.st.NumFields(); i++ {
		selOnly[v.st.Field(i).Name()] = true
	}
	ast.Inspect(v.encl, func(n ast.Node) bool {
		switch x := n.(type) {
		case *ast.SelectorExpr:
			// x.Sel is visited as an Ident too: find out whether a field name ever occurs outside selections / literal keys
			_ = x
		}
		return true
	})
	free := map[string]bool{}
	{
		// count identifier occurrences that are not "v.f" selections or keys of the literal
		occ := map[string]int{}
		skipIdent := map[*ast.Ident]bool{}
		for _, u := range v.uses {
			skipIdent[u.Sel] = true
		}
		for _, el := range elts {
			if kv, ok := el.(*ast.KeyValueExpr); ok {
				if k, ok := kv.Key.(*ast.Ident); ok {
					skipIdent[k] = true
				}
			}
		}
		ast.Inspect(v.encl, func(n ast.Node) bool {
			if id, ok := n.(*ast.Ident); ok && !skipIdent[id] {
				occ[id.Name]++
			}
			return true
		})
		for f := range selOnly {
			if occ[f] == 0 && v.pkg.Types.Scope().Lookup(f) == nil && types.Universe.Lookup(f) == nil {
				free[f] = true
			}
		}
	}
	// a field that is set from a plain local / parameter that never changes, and is itself never assigned, is that
	// variable under another name: its uses are replaced by the variable (no new declaration)
	alias := map[string]string{}
	{
		assigned := map[string]bool{}
		ast.Inspect(v.encl, func(n ast.Node) bool {
			switch x := n.(type) {
			case *ast.AssignStmt:
				for _, l := range x.Lhs {
					if sel, ok := ast.Unparen(l).(*ast.SelectorExpr); ok {
						for _, u := range v.uses {
							if u == sel {
								assigned[sel.Sel.Name] = true
							}
						}
					}
				}
			case *ast.IncDecStmt:
				if sel, ok := ast.Unparen(x.X).(*ast.SelectorExpr); ok {
					for _, u := range v.uses {
						if u == sel {
							assigned[sel.Sel.Name] = true
						}
					}
				}
			case *ast.UnaryExpr:
				if x.Op == token.AND {
					if sel, ok := ast.Unparen(x.X).(*ast.SelectorExpr); ok {
						for _, u := range v.uses {
							if u == sel {
								assigned[sel.Sel.Name] = true
							}
						}
					}
				}
			}
			return true
		})
		for i, el := range elts {
			var fname string
			var val ast.Expr
			if kv, isKV := el.(*ast.KeyValueExpr); isKV {
				if k, ok := kv.Key.(*ast.Ident); ok {
					fname, val = k.Name, kv.Value
				}
			} else {
				fname, val = v.st.Field(i).Name(), el
			}
			id, ok := val.(*ast.Ident)
			if !ok || fname == "" || assigned[fname] {
				continue
			}
			obj, ok := v.pkg.TypesInfo.Uses[id].(*types.Var)
			if !ok || obj.IsField() || obj.Parent() == nil || obj.Parent() == v.pkg.Types.Scope() {
				continue
			}
			var ft types.Type
			for j := 0; j < v.st.NumFields(); j++ {
				if v.st.Field(j).Name() == fname {
					ft = v.st.Field(j).Type()
				}
			}
			if ft == nil || !types.Identical(ft, obj.Type()) || !neverReassigned(v.pkg.TypesInfo, v.encl, obj) {
				continue
			}
			alias[fname] = id.Name
		}
	}
	name := func(f string) string {
		if a, ok := alias[f]; ok {
			return a
		}
		if free[f] {
			return f
		}
		return v.obj.Name() + "__" + f
	}
	given := map[string]ast.Expr{}
	var order []string
	for i, el := range elts {
		kv, isKV := el.(*ast.KeyValueExpr)
		if !isKV {
			f := v.st.Field(i).Name()
			given[f] = el
			order = append(order, f)
			continue
		}
		k, ok := kv.Key.(*ast.Ident)
		if !ok {
			return nil, "", fmt.Errorf("literal key is not a field name")
		}
		given[k.Name] = kv.Value
		order = append(order, k.Name)
	}
	var b strings.Builder
	// fields set by the literal, in the literal's order (evaluation order is kept); then the zero-valued ones
	for _, f := range order {
		var ft types.Type
		for i := 0; i < v.st.NumFields(); i++ {
			if v.st.Field(i).Name() == f {
				ft = v.st.Field(i).Type()
			}
		}
		if ft == nil {
			return nil, "", fmt.Errorf("unknown field %s", f)
		}
		if _, isAlias := alias[f]; isAlias {
			continue
		}
		ts := types.TypeString(ft, qual)
		fmt.Fprintf(&b, "var %s %s = %s\n_ = %s\n", name(f), ts, src(given[f]), name(f))
	}
	for i := 0; i < v.st.NumFields(); i++ {
		f := v.st.Field(i)
		if _, ok := given[f.Name()]; ok {
			continue
		}
		if f.Embedded() {
			return nil, "", fmt.Errorf("embedded field")
		}
		fmt.Fprintf(&b, "var %s %s\n_ = %s\n", name(f.Name()), types.TypeString(f.Type(), qual), name(f.Name()))
	}
	if qerr != nil {
		return nil, "", qerr
	}
	eds := []textEdit{{tf.Offset(v.def.Pos()), tf.Offset(v.def.End()), strings.TrimSuffix(b.String(), "\n")}}
	for _, u := range v.uses {
		eds = append(eds, textEdit{tf.Offset(u.Pos()), tf.Offset(u.End()), name(u.Sel.Name)})
	}
	return applyTextEdits(content, eds), fmt.Sprintf("took the local state struct %s (%s) of %s apart into one variable per field", v.obj.Name(), v.named.Obj().Name(), v.pkg.Fset.Position(v.def.Pos())), nil
}
