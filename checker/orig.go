package main

// ORIG: per-field origin sets of a struct value, followed through local variables, composite
// literals, conditional field updates, phis and calls of module functions (including function
// literals that are called in place).  Every origin is a small symbol; a field's origin is the set
// of symbols over all paths (a sound over-approximation: the analysis does not order stores).

import (
	"go/token"
	"go/types"
	"sort"
	"strings"

	"golang.org/x/tools/go/ssa"
)

type osym struct {
	Kind  string // elem | elemfield | trunc | freshmap | emptyhist | zero | other
	Field string
	Desc  string
}

func (s osym) String() string {
	switch s.Kind {
	case "elemfield":
		return "carried:" + s.Field
	case "trunc":
		return "truncated:" + s.Field
	case "other":
		return "other:" + s.Desc
	}
	return s.Kind
}

type oenv struct {
	params map[*ssa.Parameter][]osym
	free   map[*ssa.FreeVar][]osym
	// the iterated element: parameter of the top closure
	elem *ssa.Parameter
}

type origAnalysis struct {
	depth int
}

func symSetString(ss []osym) string {
	var p []string
	seen := map[string]bool{}
	for _, s := range ss {
		if !seen[s.String()] {
			seen[s.String()] = true
			p = append(p, s.String())
		}
	}
	sort.Strings(p)
	return strings.Join(p, "|")
}

func isStructPtr(t types.Type) bool {
	p, ok := t.Underlying().(*types.Pointer)
	if !ok {
		return false
	}
	_, ok = p.Elem().Underlying().(*types.Struct)
	return ok
}

// symOf: possible origins of a (non-struct or whole-struct) value.
func (a *origAnalysis) symOf(env *oenv, v ssa.Value, d int) []osym {
	other := func() []osym { return []osym{{Kind: "other", Desc: pathOf(v)}} }
	if d > 12 {
		return other()
	}
	switch x := v.(type) {
	case *ssa.Parameter:
		if x == env.elem {
			return []osym{{Kind: "elem"}}
		}
		if s, ok := env.params[x]; ok {
			return s
		}
		return other()
	case *ssa.FreeVar:
		if s, ok := env.free[x]; ok {
			return s
		}
		return other()
	case *ssa.Const:
		if x.Value == nil {
			return []osym{{Kind: "zero"}}
		}
		if n, ok := constInt(x); ok && n == 0 {
			return []osym{{Kind: "zero"}}
		}
		if s := x.Value.String(); s == "0" || s == "\"\"" || s == "false" {
			return []osym{{Kind: "zero"}}
		}
		return other()
	case *ssa.MakeMap:
		// a map made by a function that encloses the traversal's callback is made once, not once per series
		if env.elem != nil && env.elem.Parent() != nil {
			for p := env.elem.Parent().Parent(); p != nil; p = p.Parent() {
				if p == x.Parent() {
					return []osym{{Kind: "other", Desc: "a map made once outside the traversal (shared by every series)"}}
				}
			}
		}
		return []osym{{Kind: "freshmap"}}
	case *ssa.Phi:
		var out []osym
		for _, e := range x.Edges {
			out = append(out, a.symOf(env, e, d+1)...)
		}
		return out
	case *ssa.ChangeType:
		return a.symOf(env, x.X, d+1)
	case *ssa.Field:
		var out []osym
		for _, s := range a.symOf(env, x.X, d+1) {
			if s.Kind == "elem" {
				out = append(out, osym{Kind: "elemfield", Field: fieldName(x.X.Type(), x.Field)})
			} else {
				out = append(out, osym{Kind: "other", Desc: pathOf(v)})
			}
		}
		return out
	case *ssa.Slice:
		if hi, ok := constInt(x.High); ok && hi == 0 && x.Low == nil {
			var out []osym
			for _, s := range a.symOf(env, x.X, d+1) {
				if s.Kind == "elemfield" {
					out = append(out, osym{Kind: "trunc", Field: s.Field})
				} else if s.Kind == "trunc" || s.Kind == "zero" {
					out = append(out, s)
				} else {
					out = append(out, osym{Kind: "other", Desc: pathOf(v)})
				}
			}
			return out
		}
		return other()
	case *ssa.UnOp:
		if x.Op != token.MUL {
			return other()
		}
		switch ad := x.X.(type) {
		case *ssa.Alloc:
			// load of a local variable: what was stored into it
			var out []osym
			n := 0
			for _, ref := range referrers(ad) {
				if st, ok := ref.(*ssa.Store); ok && st.Addr == ssa.Value(ad) {
					n++
					out = append(out, a.symOf(env, st.Val, d+1)...)
				}
			}
			if n == 0 {
				return []osym{{Kind: "zero"}}
			}
			return out
		case *ssa.FieldAddr:
			fname := fieldName(ad.X.Type(), ad.Field)
			if al, ok := ad.X.(*ssa.Alloc); ok {
				fs := a.fieldsOfAlloc(env, al, d+1, x)
				if s, ok := fs[fname]; ok {
					return s
				}
				return []osym{{Kind: "zero"}}
			}
			// field of a pointer parameter / free variable
			var out []osym
			for _, s := range a.symOf(env, ad.X, d+1) {
				if s.Kind == "elem" {
					out = append(out, osym{Kind: "elemfield", Field: fname})
				} else {
					out = append(out, osym{Kind: "other", Desc: pathOf(v)})
				}
			}
			return out
		case *ssa.FreeVar:
			if s, ok := env.free[ad]; ok {
				return s
			}
		}
		return other()
	case *ssa.Call:
		if isCall(x, "pkg/statsd.emptyHistogram") {
			return []osym{{Kind: "emptyhist"}}
		}
		callee, cenv := a.calleeEnv(env, x, d)
		if callee == nil {
			return other()
		}
		var out []osym
		eachInstr(callee, func(in ssa.Instruction) {
			if ret, ok := in.(*ssa.Return); ok && len(ret.Results) == 1 {
				out = append(out, a.symOf(cenv, ret.Results[0], d+1)...)
			}
		})
		if len(out) == 0 {
			return other()
		}
		return out
	}
	return other()
}

// calleeEnv: the module function (with a body) called by x, and the environment binding its
// parameters and free variables to the origins of the actual arguments / bindings.
func (a *origAnalysis) calleeEnv(env *oenv, x *ssa.Call, d int) (*ssa.Function, *oenv) {
	var callee *ssa.Function
	var bindings []ssa.Value
	switch f := x.Call.Value.(type) {
	case *ssa.Function:
		callee = f
	case *ssa.MakeClosure:
		callee, _ = f.Fn.(*ssa.Function)
		bindings = f.Bindings
	}
	if callee == nil || callee.Blocks == nil || !IsModule(callee) || x.Call.IsInvoke() {
		return nil, nil
	}
	cenv := &oenv{params: map[*ssa.Parameter][]osym{}, free: map[*ssa.FreeVar][]osym{}}
	for i, p := range callee.Params {
		if i < len(x.Call.Args) {
			cenv.params[p] = a.symOf(env, x.Call.Args[i], d+1)
		}
	}
	for i, fv := range callee.FreeVars {
		if i < len(bindings) {
			// a binding is the address of the captured variable
			b := bindings[i]
			switch bb := b.(type) {
			case *ssa.Alloc:
				if _, isStruct := derefType(bb.Type()).Underlying().(*types.Struct); isStruct && a.isElemSpill(env, bb) {
					cenv.free[fv] = []osym{{Kind: "elem"}}
					continue
				}
				var out []osym
				for _, ref := range referrers(bb) {
					if st, ok := ref.(*ssa.Store); ok && st.Addr == ssa.Value(bb) {
						out = append(out, a.symOf(env, st.Val, d+1)...)
					}
				}
				cenv.free[fv] = out
			case *ssa.FreeVar:
				cenv.free[fv] = env.free[bb]
			default:
				cenv.free[fv] = a.symOf(env, b, d+1)
			}
		}
	}
	return callee, cenv
}

// isElemSpill: al is the stack slot of the iterated element (*al = elem parameter, never reassigned).
func (a *origAnalysis) isElemSpill(env *oenv, al *ssa.Alloc) bool {
	n, ok := 0, false
	for _, ref := range referrers(al) {
		if st, isSt := ref.(*ssa.Store); isSt && st.Addr == ssa.Value(al) {
			n++
			for _, s := range a.symOf(env, st.Val, 10) {
				if s.Kind == "elem" {
					ok = true
				}
			}
		}
		if fa, isFA := ref.(*ssa.FieldAddr); isFA {
			for _, r2 := range referrers(fa) {
				if st, isSt := r2.(*ssa.Store); isSt && st.Addr == ssa.Value(fa) {
					return false // modified copy
				}
			}
		}
	}
	return n == 1 && ok
}

// fieldsOfAlloc: origin sets of the fields of a local struct variable.
func (a *origAnalysis) fieldsOfAlloc(env *oenv, al *ssa.Alloc, d int, use ssa.Instruction) map[string][]osym {
	st, ok := derefType(al.Type()).Underlying().(*types.Struct)
	out := map[string][]osym{}
	if !ok || d > 12 {
		return out
	}
	whole := 0
	var wholeStores []*ssa.Store
	for _, ref := range referrers(al) {
		if s, isSt := ref.(*ssa.Store); isSt && s.Addr == ssa.Value(al) {
			whole++
			wholeStores = append(wholeStores, s)
			src := a.fieldsOf(env, s.Val, d+1)
			for i := 0; i < st.NumFields(); i++ {
				f := st.Field(i).Name()
				if v, has := src[f]; has {
					out[f] = append(out[f], v...)
				} else {
					out[f] = append(out[f], osym{Kind: "other", Desc: pathOf(s.Val)})
				}
			}
		}
	}
	if whole == 0 {
		for i := 0; i < st.NumFields(); i++ {
			out[st.Field(i).Name()] = []osym{{Kind: "zero"}}
		}
	}
	direct := map[string][]osym{}
	allPaths := map[string]bool{}
	afterWhole := map[string]bool{} // a field store that dominates the use and follows every whole-struct store
	elemSpill := false
	for _, ref := range referrers(al) {
		fa, ok := ref.(*ssa.FieldAddr)
		if !ok {
			continue
		}
		f := fieldName(al.Type(), fa.Field)
		for _, r2 := range referrers(fa) {
			if s, isSt := r2.(*ssa.Store); isSt && s.Addr == ssa.Value(fa) {
				direct[f] = append(direct[f], a.symOf(env, s.Val, d+1)...)
				// a composite literal's field stores are unconditional (same block as the alloc); so is any
				// field store that dominates the point where the struct is read
				if al.Comment == "complit" && s.Block() == al.Block() {
					allPaths[f] = true
				}
				if use != nil && s.Parent() == use.Parent() && instrDominates(s, use) {
					allPaths[f] = true
					ok := true
					for _, ws := range wholeStores {
						if !instrDominates(ws, s) {
							ok = false
						}
					}
					if ok {
						afterWhole[f] = true
					}
				}
			}
		}
	}
	for f, ss := range direct {
		if (allPaths[f] && whole == 0 && !elemSpill) || afterWhole[f] {
			out[f] = ss
		} else {
			out[f] = append(out[f], ss...)
		}
	}
	return out
}

// fieldsOf: origin sets of the fields of a struct value.
func (a *origAnalysis) fieldsOf(env *oenv, v ssa.Value, d int) map[string][]osym {
	st, ok := v.Type().Underlying().(*types.Struct)
	out := map[string][]osym{}
	if !ok {
		return out
	}
	all := func(mk func(f string) osym) map[string][]osym {
		for i := 0; i < st.NumFields(); i++ {
			out[st.Field(i).Name()] = []osym{mk(st.Field(i).Name())}
		}
		return out
	}
	if d > 12 {
		return all(func(string) osym { return osym{Kind: "other", Desc: pathOf(v)} })
	}
	merge := func(m map[string][]osym) {
		for f, s := range m {
			out[f] = append(out[f], s...)
		}
	}
	switch x := v.(type) {
	case *ssa.UnOp:
		if x.Op == token.MUL {
			if al, ok := x.X.(*ssa.Alloc); ok {
				return a.fieldsOfAlloc(env, al, d+1, x)
			}
		}
	case *ssa.Parameter, *ssa.FreeVar:
		for _, s := range a.symOf(env, v, d+1) {
			if s.Kind == "elem" {
				merge(all(func(f string) osym { return osym{Kind: "elemfield", Field: f} }))
			} else {
				merge(all(func(string) osym { return osym{Kind: "other", Desc: pathOf(v)} }))
			}
		}
		return out
	case *ssa.Phi:
		for _, e := range x.Edges {
			merge(a.fieldsOf(env, e, d+1))
		}
		return out
	case *ssa.Call:
		callee, cenv := a.calleeEnv(env, x, d)
		if callee != nil {
			n := 0
			eachInstr(callee, func(in ssa.Instruction) {
				if ret, ok := in.(*ssa.Return); ok && len(ret.Results) == 1 {
					n++
					merge(a.fieldsOf(cenv, ret.Results[0], d+1))
				}
			})
			if n > 0 {
				return out
			}
		}
	}
	return all(func(string) osym { return osym{Kind: "other", Desc: pathOf(v)} })
}
