package main

import (
	"encoding/json"
	"fmt"
	"go/token"
	"os"
	"path/filepath"
	"runtime/debug"
	"sort"
	"strings"
	"time"
)

// Obl is one obligation: a rule instance on one construct.
type Obl struct {
	Rule   string `json:"rule"`
	Key    string `json:"key"` // rule-local stable key: function + construct, never a line number
	Pos    string `json:"pos"`
	OK     bool   `json:"ok"`
	Known  bool   `json:"known_finding,omitempty"`
	Detail string `json:"detail,omitempty"`
}

// Rule collects the obligations of one rule.
type Rule struct {
	ID     string
	Desc   string
	Min    int // instance count confirmed by hand on the pinned tree; fewer => vacuous => fail
	Obls   []*Obl
	Notes  []string
	ctx    *Ctx
	failed bool
}

type Ctx struct {
	W     *World
	Prop  string
	Tier  string
	Rules []*Rule
	// evidence extras
	Explanation string
	Assumptions []string
	NotDecided  []string
	funcsSeen   map[string]bool
	known       []knownFinding
	Only        string // replay: run only this rule
	Sub         bool   // this context is run on behalf of another property's rule (no further sharing)
}

type knownFinding struct {
	Property string `json:"property"`
	Rule     string `json:"rule"`
	Key      string `json:"key"`
	What     string `json:"what"`
}

type knownFile struct {
	Findings []knownFinding    `json:"findings"`
	Fixed    []json.RawMessage `json:"fixed"`
}

func (c *Ctx) loadKnown(path string) {
	b, err := os.ReadFile(path)
	if err != nil {
		return
	}
	var kf knownFile
	if json.Unmarshal(b, &kf) == nil {
		c.known = kf.Findings
	}
}

// Rule runs f as rule id. A panic inside a rule is a failure of the rule (fail closed).
func (c *Ctx) Rule(id, desc string, min int, f func(r *Rule)) {
	if c.Only != "" && c.Only != id {
		return
	}
	r := &Rule{ID: id, Desc: desc, Min: min, ctx: c}
	c.Rules = append(c.Rules, r)
	func() {
		defer func() {
			if e := recover(); e != nil {
				st := string(debug.Stack())
				if len(st) > 1500 {
					st = st[:1500]
				}
				r.Fail("checker-panic", token.NoPos, fmt.Sprintf("rule panicked: %v\n%s", e, st))
			}
		}()
		f(r)
	}()
	if len(r.Obls) < r.Min {
		r.Fail("vacuity-guard", token.NoPos, fmt.Sprintf("rule matched %d instances, fewer than the %d confirmed on the pinned tree: an anchor or idiom is no longer recognised", len(r.Obls), r.Min))
	}
}

// Check records one obligation.
func (r *Rule) Check(key string, ok bool, pos token.Pos, detail string) bool {
	o := &Obl{Rule: r.ID, Key: key, OK: ok, Pos: r.ctx.W.Pos(pos), Detail: detail}
	if !ok {
		for _, k := range r.ctx.known {
			if k.Property == r.ctx.Prop && k.Rule == r.ID && k.Key == key {
				o.Known = true
				o.Detail = k.What
			}
		}
	}
	r.Obls = append(r.Obls, o)
	return ok
}

func (r *Rule) Fail(key string, pos token.Pos, detail string) { r.Check(key, false, pos, detail) }
func (r *Rule) Pass(key string, pos token.Pos, detail string) { r.Check(key, true, pos, detail) }

// Unresolved marks an anchor that no longer resolves; the check fails closed.
func (r *Rule) Unresolved(what string) {
	r.Fail("UNRESOLVED-ANCHOR:"+what, token.NoPos, "anchor does not resolve in the current tree: "+what)
}

func (r *Rule) Note(s string) { r.Notes = append(r.Notes, s) }

func (c *Ctx) SawFunc(name string) {
	if c.funcsSeen == nil {
		c.funcsSeen = map[string]bool{}
	}
	c.funcsSeen[name] = true
}

// Finish prints the per-rule summary, writes evidence and (on violation) the report; returns exit code.
func (c *Ctx) Finish(verif string, start time.Time) int {
	total, discharged, violations, known := 0, 0, 0, 0
	type ruleSum struct {
		ID          string   `json:"id"`
		Desc        string   `json:"desc"`
		Instances   int      `json:"instances"`
		Discharged  int      `json:"discharged"`
		MinExpected int      `json:"min_expected"`
		Notes       []string `json:"notes,omitempty"`
	}
	var sums []ruleSum
	var samples []interface{}
	var bad []*Obl
	distinct := map[string]bool{}
	for _, r := range c.Rules {
		ok := 0
		for _, o := range r.Obls {
			total++
			distinct[o.Rule+"|"+o.Key] = true
			if o.OK {
				ok++
				discharged++
			} else if o.Known {
				known++
				fmt.Printf("KNOWN-FINDING: property=%s rule=%s key=%s %s\n", c.Prop, o.Rule, o.Key, oneLine(o.Detail))
			} else {
				violations++
				bad = append(bad, o)
			}
		}
		fmt.Printf("rule=%s instances=%d discharged=%d min=%d  %s\n", r.ID, len(r.Obls), ok, r.Min, r.Desc)
		sums = append(sums, ruleSum{r.ID, r.Desc, len(r.Obls), ok, r.Min, r.Notes})
		// up to 3 samples per rule
		for i, o := range r.Obls {
			if i >= 3 {
				break
			}
			samples = append(samples, map[string]interface{}{"rule": o.Rule, "key": o.Key, "pos": o.Pos, "ok": o.OK, "detail": trunc(o.Detail, 300)})
		}
	}
	var funcs []string
	for f := range c.funcsSeen {
		funcs = append(funcs, f)
	}
	sort.Strings(funcs)
	if c.Assumptions == nil {
		c.Assumptions = []string{}
	}
	c.Assumptions = append(c.Assumptions, "the Go type checker and go/ssa represent the program faithfully; third-party and standard libraries behave as documented")
	expl := c.Explanation
	if len(c.NotDecided) > 0 {
		expl += " NOT DECIDED by this check: " + strings.Join(c.NotDecided, "; ") + "."
	}
	ev := map[string]interface{}{
		"property_id": c.Prop,
		"tier":        c.Tier,
		"seed":        seedFromEnv(),
		"level":       "other",
		"coverage": map[string]interface{}{
			"explanation":         expl,
			"obligations":         total,
			"discharged":          discharged,
			"known_findings":      known,
			"evaluations":         total,
			"distinct_nontrivial": len(distinct),
			"rule":                "one obligation per (rule, construct) instance found in the type-checked SSA program of /repo's working tree; distinct = distinct (rule,key) pairs; every obligation is non-trivial in that it names a resolved construct of the current source",
			"rules":               sums,
			"functions_analysed":  funcs,
			"samples":             samples,
			"checker_cmd":         fmt.Sprintf("./run.sh %s %s", c.Prop, c.Tier),
			"trusted_base":        []string{"go/types, go/ssa (x/tools v0.50.0, go1.26.8)", "dominator/control-dependence and table extraction code in /verif/checker", "allow-list and lemma tables in the checker (each justified in place)", "Go language and standard-library semantics", "third-party libraries used by gostatsd"},
		},
		"assumptions": c.Assumptions,
		"wall_s":      time.Since(start).Seconds(),
		"violations":  violations,
	}
	os.MkdirAll(filepath.Join(verif, "evidence"), 0o755)
	b, _ := json.MarshalIndent(ev, "", " ")
	if err := os.WriteFile(filepath.Join(verif, "evidence", c.Prop+".json"), b, 0o644); err != nil {
		fmt.Println("cannot write evidence:", err)
		return 2
	}
	fmt.Printf("property=%s tier=%s obligations=%d discharged=%d known=%d violations=%d wall=%.1fs\n", c.Prop, c.Tier, total, discharged, known, violations, time.Since(start).Seconds())
	if violations > 0 {
		os.MkdirAll(filepath.Join(verif, "reports"), 0o755)
		rp := filepath.Join(verif, "reports", c.Prop+".json")
		rb, _ := json.MarshalIndent(map[string]interface{}{"property": c.Prop, "tier": c.Tier, "violations": bad}, "", " ")
		os.WriteFile(rp, rb, 0o644)
		for _, o := range bad {
			fmt.Printf("  FAIL rule=%s key=%s at %s: %s\n", o.Rule, o.Key, o.Pos, oneLine(o.Detail))
		}
		fmt.Printf("VIOLATION property=%s replay=%s\n", c.Prop, rp)
		return 1
	}
	return 0
}

func oneLine(s string) string {
	s = strings.ReplaceAll(s, "\n", " | ")
	return trunc(s, 600)
}

func trunc(s string, n int) string {
	if len(s) > n {
		return s[:n] + "…"
	}
	return s
}

func seedFromEnv() int {
	var n int
	fmt.Sscanf(os.Getenv("VERIF_SEED"), "%d", &n)
	return n
}

// importObligations runs another property's rules in a sub-context and copies the obligations of one of its
// rules (those accepted by pick) into r, prefixed with the rule they come from: a clause two properties share
// is decided by one piece of analysis and reported under both.
func importObligations(c *Ctx, r *Rule, run func(*Ctx), ruleID string, pick func(key string) bool) {
	sub := &Ctx{W: c.W, Prop: c.Prop, Tier: c.Tier, known: c.known, Sub: true}
	run(sub)
	for _, sr := range sub.Rules {
		if sr.ID != ruleID {
			continue
		}
		for _, o := range sr.Obls {
			if pick == nil || pick(o.Key) {
				o2 := *o
				o2.Rule = r.ID
				o2.Key = sr.ID + "/" + o.Key
				r.Obls = append(r.Obls, &o2)
			}
		}
	}
}
