package main

import (
	"fmt"
	"go/constant"
	"go/token"
	"go/types"
	"sort"
	"strings"

	"golang.org/x/tools/go/ssa"
)

// ---------- callee resolution ----------

// calleeName returns a resolved, position-independent name for the target of a call:
// a static callee's full name ("(*sync.WaitGroup).Add", "github.com/.../statsd.isExpired"),
// "invoke (pkg.Iface).Method" for interface calls, "builtin name" or "dynamic:<path>".
func calleeName(c ssa.CallInstruction) string {
	cc := c.Common()
	if cc.IsInvoke() {
		return "invoke " + cc.Method.FullName()
	}
	switch v := cc.Value.(type) {
	case *ssa.Function:
		return v.String()
	case *ssa.Builtin:
		return "builtin " + v.Name()
	case *ssa.MakeClosure:
		return v.Fn.String()
	}
	return "dynamic:" + pathOf(cc.Value)
}

func staticCallee(c ssa.CallInstruction) *ssa.Function {
	cc := c.Common()
	if cc.IsInvoke() {
		return nil
	}
	switch v := cc.Value.(type) {
	case *ssa.Function:
		return v
	case *ssa.MakeClosure:
		if f, ok := v.Fn.(*ssa.Function); ok {
			return f
		}
	}
	return nil
}

// shortCallee strips the module prefix from calleeName.
func shortCallee(c ssa.CallInstruction) string {
	return strings.ReplaceAll(calleeName(c), Mod+"/", "")
}

// isCall reports whether c targets a callee whose resolved name equals one of names
// (module prefix may be omitted in names, e.g. "pkg/statsd.isExpired" or "gostatsd.Bucket").
func isCall(c ssa.CallInstruction, names ...string) bool {
	n := calleeName(c)
	s := strings.ReplaceAll(n, Mod+"/", "")
	s2 := strings.ReplaceAll(s, Mod+".", "gostatsd.")
	s2 = strings.ReplaceAll(s2, Mod+")", "gostatsd)")
	for _, x := range names {
		if n == x || s == x || s2 == x {
			return true
		}
	}
	return false
}

// callArgs returns the actual arguments excluding the receiver for static method calls.
func callArgs(c ssa.CallInstruction) []ssa.Value {
	cc := c.Common()
	if cc.IsInvoke() {
		return cc.Args
	}
	if f := staticCallee(c); f != nil && f.Signature.Recv() != nil && len(cc.Args) > 0 {
		return cc.Args[1:]
	}
	return cc.Args
}

// recvOf returns the receiver value of a method call (invoke or static), or nil.
func recvOf(c ssa.CallInstruction) ssa.Value {
	cc := c.Common()
	if cc.IsInvoke() {
		return cc.Value
	}
	if f := staticCallee(c); f != nil && f.Signature.Recv() != nil && len(cc.Args) > 0 {
		return cc.Args[0]
	}
	return nil
}

// eachInstr visits every instruction of fn (not nested closures).
func eachInstr(fn *ssa.Function, f func(ssa.Instruction)) {
	for _, b := range fn.Blocks {
		for _, in := range b.Instrs {
			f(in)
		}
	}
}

// callsIn returns every call/go/defer instruction in fn.
func callsIn(fn *ssa.Function) []ssa.CallInstruction {
	var out []ssa.CallInstruction
	eachInstr(fn, func(in ssa.Instruction) {
		if c, ok := in.(ssa.CallInstruction); ok {
			out = append(out, c)
		}
	})
	return out
}

// callsTo returns the call instructions in fn whose callee matches one of names.
func callsTo(fn *ssa.Function, names ...string) []ssa.CallInstruction {
	var out []ssa.CallInstruction
	for _, c := range callsIn(fn) {
		if isCall(c, names...) {
			out = append(out, c)
		}
	}
	return out
}

// ---------- access paths ----------

// pathOf renders a value as a field-sensitive access path from parameters, free variables
// and locals: "a.metricMap.Counters", "l.input[]", "call(strconv.ParseFloat)#0".
// Pointer dereference is implicit. The result is used to compare "same storage location"
// between instructions of the same function; it is not position dependent.
func pathOf(v ssa.Value) string { return pathOfD(v, 0) }

func pathOfD(v ssa.Value, d int) string {
	if d > 12 {
		return "…"
	}
	switch x := v.(type) {
	case nil:
		return "<nil>"
	case *ssa.Parameter:
		return x.Name()
	case *ssa.FreeVar:
		return x.Name()
	case *ssa.Global:
		return x.Pkg.Pkg.Name() + "." + x.Name()
	case *ssa.Const:
		if x.Value == nil {
			return "nil"
		}
		return x.Value.ExactString()
	case *ssa.Alloc:
		if x.Comment != "" && x.Comment != "complit" {
			return x.Comment
		}
		return "alloc"
	case *ssa.FieldAddr:
		return pathOfD(x.X, d+1) + "." + fieldName(x.X.Type(), x.Field)
	case *ssa.Field:
		return pathOfD(x.X, d+1) + "." + fieldName(x.X.Type(), x.Field)
	case *ssa.UnOp:
		if x.Op == token.MUL {
			if t := aliasTarget(x.X); t != nil {
				return pathOfD(t, d+1)
			}
			if pathResolveStructs {
				if fa, ok := x.X.(*ssa.FieldAddr); ok {
					if t := localStructField(fa); t != nil {
						return pathOfD(t, d+1)
					}
				}
			}
			return pathOfD(x.X, d+1)
		}
		if x.Op == token.ARROW {
			return "<-" + pathOfD(x.X, d+1)
		}
		return x.Op.String() + pathOfD(x.X, d+1)
	case *ssa.IndexAddr:
		return pathOfD(x.X, d+1) + "[" + pathOfD(x.Index, d+1) + "]"
	case *ssa.Index:
		return pathOfD(x.X, d+1) + "[" + pathOfD(x.Index, d+1) + "]"
	case *ssa.Lookup:
		return pathOfD(x.X, d+1) + "[" + pathOfD(x.Index, d+1) + "]"
	case *ssa.Slice:
		s := pathOfD(x.X, d+1) + "["
		if x.Low != nil {
			s += pathOfD(x.Low, d+1)
		}
		s += ":"
		if x.High != nil {
			s += pathOfD(x.High, d+1)
		}
		return s + "]"
	case *ssa.ChangeType:
		return pathOfD(x.X, d+1)
	case *ssa.Convert:
		return "conv(" + pathOfD(x.X, d+1) + ")"
	case *ssa.MakeInterface:
		return pathOfD(x.X, d+1)
	case *ssa.ChangeInterface:
		return pathOfD(x.X, d+1)
	case *ssa.TypeAssert:
		return pathOfD(x.X, d+1)
	case *ssa.Extract:
		return pathOfD(x.Tuple, d+1) + "#" + fmt.Sprint(x.Index)
	case *ssa.Call:
		return "call(" + strings.ReplaceAll(calleeName(x), Mod+"/", "") + ")"
	case *ssa.BinOp:
		return "(" + pathOfD(x.X, d+1) + x.Op.String() + pathOfD(x.Y, d+1) + ")"
	case *ssa.Phi:
		if x.Comment != "" {
			return "phi:" + x.Comment
		}
		return "phi"
	case *ssa.MakeClosure:
		return "closure(" + x.Fn.Name() + ")"
	case *ssa.Function:
		return "func(" + x.Name() + ")"
	case *ssa.Range:
		return "range(" + pathOfD(x.X, d+1) + ")"
	case *ssa.Next:
		return "next(" + pathOfD(x.Iter, d+1) + ")"
	case *ssa.MakeMap:
		return "makemap"
	case *ssa.MakeSlice:
		return "makeslice"
	case *ssa.MakeChan:
		return "makechan"
	case *ssa.Select:
		return "select"
	case *ssa.Builtin:
		return "builtin " + x.Name()
	}
	return fmt.Sprintf("%T", v)
}

func fieldName(t types.Type, i int) string {
	if p, ok := t.Underlying().(*types.Pointer); ok {
		t = p.Elem()
	}
	if st, ok := t.Underlying().(*types.Struct); ok && i < st.NumFields() {
		return st.Field(i).Name()
	}
	return fmt.Sprintf("f%d", i)
}

// structName returns the name of the (possibly pointed-to) named struct type of t, or "".
func structName(t types.Type) string {
	if p, ok := t.Underlying().(*types.Pointer); ok {
		t = p.Elem()
	}
	if p, ok := t.(*types.Pointer); ok {
		t = p.Elem()
	}
	if n, ok := t.(*types.Named); ok {
		return n.Obj().Name()
	}
	return ""
}

// fieldRef describes a FieldAddr/Field instruction as (struct type name, field name, base).
func fieldRef(v ssa.Value) (st, field string, base ssa.Value, ok bool) {
	switch x := v.(type) {
	case *ssa.FieldAddr:
		return structName(x.X.Type()), fieldName(x.X.Type(), x.Field), x.X, true
	case *ssa.Field:
		return structName(x.X.Type()), fieldName(x.X.Type(), x.Field), x.X, true
	}
	return "", "", nil, false
}

// storesIn returns all Store instructions of fn.
func storesIn(fn *ssa.Function) []*ssa.Store {
	var out []*ssa.Store
	eachInstr(fn, func(in ssa.Instruction) {
		if s, ok := in.(*ssa.Store); ok {
			out = append(out, s)
		}
	})
	return out
}

// fieldStores returns stores in fn whose address is field `field` of struct type `st`.
func fieldStores(fn *ssa.Function, st, field string) []*ssa.Store {
	var out []*ssa.Store
	for _, s := range storesIn(fn) {
		if t, f, _, ok := fieldRef(s.Addr); ok && t == st && f == field {
			out = append(out, s)
		}
	}
	return out
}

// fieldReads returns instructions in fn that read (load or Field-extract) st.field.
func fieldReads(fn *ssa.Function, st, field string) []ssa.Instruction {
	var out []ssa.Instruction
	eachInstr(fn, func(in ssa.Instruction) {
		switch x := in.(type) {
		case *ssa.UnOp:
			if x.Op == token.MUL {
				if t, f, _, ok := fieldRef(x.X); ok && t == st && f == field {
					out = append(out, in)
				}
			}
		case *ssa.Field:
			if t, f, _, ok := fieldRef(x); ok && t == st && f == field {
				out = append(out, in)
			}
		}
	})
	return out
}

// fieldAccesses returns every FieldAddr/Field instruction on st.field in fn.
func fieldAccesses(fn *ssa.Function, st, field string) []ssa.Instruction {
	var out []ssa.Instruction
	eachInstr(fn, func(in ssa.Instruction) {
		if v, ok := in.(ssa.Value); ok {
			if t, f, _, ok := fieldRef(v); ok && t == st && f == field {
				out = append(out, in)
			}
		}
	})
	return out
}

// ---------- constants ----------

func constInt(v ssa.Value) (int64, bool) {
	if c, ok := v.(*ssa.Const); ok && c.Value != nil && c.Value.Kind() == constant.Int {
		n, ok := constant.Int64Val(c.Value)
		return n, ok
	}
	if cv, ok := v.(*ssa.Convert); ok {
		return constInt(cv.X)
	}
	return 0, false
}

func constString(v ssa.Value) (string, bool) {
	if c, ok := v.(*ssa.Const); ok && c.Value != nil && c.Value.Kind() == constant.String {
		return constant.StringVal(c.Value), true
	}
	return "", false
}

func isNilConst(v ssa.Value) bool {
	c, ok := v.(*ssa.Const)
	return ok && c.Value == nil
}

// ---------- CFG: dominance, post-dominance, branch facts ----------

func instrIndex(in ssa.Instruction) int {
	for i, x := range in.Block().Instrs {
		if x == in {
			return i
		}
	}
	return -1
}

// instrDominates: a executes before b on every path reaching b (same function).
func instrDominates(a, b ssa.Instruction) bool {
	if a.Block() == b.Block() {
		return instrIndex(a) < instrIndex(b)
	}
	return a.Block().Dominates(b.Block())
}

// reachableBlocks returns the set of blocks reachable from b (excluding b itself unless on a cycle).
func reachableFrom(b *ssa.BasicBlock) map[*ssa.BasicBlock]bool {
	seen := map[*ssa.BasicBlock]bool{}
	var stack []*ssa.BasicBlock
	stack = append(stack, b.Succs...)
	for len(stack) > 0 {
		x := stack[len(stack)-1]
		stack = stack[:len(stack)-1]
		if seen[x] {
			continue
		}
		seen[x] = true
		stack = append(stack, x.Succs...)
	}
	return seen
}

// instrReaches: there is a CFG path on which a executes and later b executes.
func instrReaches(a, b ssa.Instruction) bool {
	if a.Block() == b.Block() && instrIndex(a) < instrIndex(b) {
		return true
	}
	return reachableFrom(a.Block())[b.Block()]
}

// Cond is a branch fact: value V evaluated to Sense on every path to the block.
type Cond struct {
	V     ssa.Value
	Sense bool
	If    *ssa.If
}

// condsFor returns the branch conditions that hold on entry to block b: for every If
// terminator of a dominator d, if the edge d->succ is the only way into a region that
// dominates b, the condition (with its sense) is a fact at b.  Sound for SSA values.
func condsFor(b *ssa.BasicBlock) []Cond {
	var out []Cond
	for d := b.Idom(); d != nil; d = d.Idom() {
		if len(d.Instrs) == 0 {
			continue
		}
		ifi, ok := d.Instrs[len(d.Instrs)-1].(*ssa.If)
		if !ok {
			continue
		}
		t, f := d.Succs[0], d.Succs[1]
		if t == f {
			continue
		}
		if edgeDominates(d, t, b) {
			out = append(out, Cond{ifi.Cond, true, ifi})
		} else if edgeDominates(d, f, b) {
			out = append(out, Cond{ifi.Cond, false, ifi})
		}
	}
	return out
}

// edgeDominates: every path from entry to b passes the edge d->s.
func edgeDominates(d, s, b *ssa.BasicBlock) bool {
	if !(s == b || s.Dominates(b)) {
		return false
	}
	// every predecessor of s other than d must itself be dominated by s (a back edge)
	for _, p := range s.Preds {
		if p == d {
			continue
		}
		if !(p == s || s.Dominates(p)) {
			return false
		}
	}
	return true
}

// condHolds reports whether the fact "v == sense" holds at block b.
func condHolds(b *ssa.BasicBlock, match func(c Cond) bool) bool {
	for _, c := range condsFor(b) {
		if match(c) {
			return true
		}
	}
	return false
}

// flattenCond expands && / || / ! structure that SSA has already lowered into control flow:
// returns the condition unchanged but normalises UnOp NOT.
func normCond(c Cond) Cond {
	for {
		u, ok := c.V.(*ssa.UnOp)
		if !ok || u.Op != token.NOT {
			return c
		}
		c = Cond{u.X, !c.Sense, c.If}
	}
}

// postDom computes post-dominator sets for fn with a virtual exit fed by every block
// that has no successors (return / panic).  pd[b][x] = x post-dominates b.
type postDom struct {
	fn *ssa.Function
	pd []map[int]bool
}

func newPostDom(fn *ssa.Function) *postDom {
	n := len(fn.Blocks)
	all := func() map[int]bool {
		m := make(map[int]bool, n)
		for i := 0; i < n; i++ {
			m[i] = true
		}
		return m
	}
	pd := make([]map[int]bool, n)
	for i, b := range fn.Blocks {
		if len(b.Succs) == 0 {
			pd[i] = map[int]bool{i: true}
		} else {
			pd[i] = all()
		}
	}
	changed := true
	for changed {
		changed = false
		for i := n - 1; i >= 0; i-- {
			b := fn.Blocks[i]
			if len(b.Succs) == 0 {
				continue
			}
			var inter map[int]bool
			for _, s := range b.Succs {
				if inter == nil {
					inter = make(map[int]bool, len(pd[s.Index]))
					for k := range pd[s.Index] {
						inter[k] = true
					}
				} else {
					for k := range inter {
						if !pd[s.Index][k] {
							delete(inter, k)
						}
					}
				}
			}
			inter[i] = true
			if len(inter) != len(pd[i]) {
				pd[i] = inter
				changed = true
			}
		}
	}
	return &postDom{fn, pd}
}

// PostDominates: every path from a to function exit passes through b.
func (p *postDom) PostDominates(b, a *ssa.BasicBlock) bool { return p.pd[a.Index][b.Index] }

// instrPostDominates: b executes after a on every path from a to exit.
func (p *postDom) instrPostDominates(b, a ssa.Instruction) bool {
	if a.Block() == b.Block() {
		return instrIndex(b) > instrIndex(a)
	}
	return p.PostDominates(b.Block(), a.Block())
}

// ---------- typestate automaton over the CFG ----------

// Event classifier: returns an event id (>=0) for instructions of interest, -1 otherwise.
// runAutomaton propagates sets of states (bitmask, <= 30 states) forward; delta returns the
// next state or -1 for "error transition".  It returns for every exit block (Return or Panic
// terminator, or no successor) the set of states reaching it, plus error transitions found.
type autoErr struct {
	At    ssa.Instruction
	State int
	Event int
}

type autoResult struct {
	ExitStates map[*ssa.BasicBlock]uint32
	Errors     []autoErr
	InStates   map[ssa.Instruction]uint32 // state set just before each event instruction
}

func runAutomaton(fn *ssa.Function, start int, classify func(ssa.Instruction) int, delta func(state, event int) int) autoResult {
	return runAutomatonE(fn, start, classify, nil, delta)
}

// automatonPred is the predecessor through which the block `from` of the edge being classified was
// entered (nil at the entry block); edge classifiers use edgeCondResolved to look through a flag phi.
var automatonPred *ssa.BasicBlock

// phiEnvFor: the values the phis of b take when b is entered from pred.
func phiEnvFor(pred, b *ssa.BasicBlock) map[*ssa.Phi]ssa.Value {
	env := map[*ssa.Phi]ssa.Value{}
	if pred == nil {
		return env
	}
	idx := -1
	for i, p := range b.Preds {
		if p == pred {
			idx = i
		}
	}
	if idx < 0 {
		return env
	}
	for _, in := range b.Instrs {
		ph, ok := in.(*ssa.Phi)
		if !ok {
			break
		}
		env[ph] = ph.Edges[idx]
	}
	return env
}

// feasibleSucc: may the edge b->s be taken when b was entered from pred?  Only branches whose
// condition is constant once the phis of b are fixed by the incoming edge are pruned ("flag
// threading": `ok := f(); if !ok {...}` after inlining f is a phi of constants).
func feasibleSucc(pred, b, s *ssa.BasicBlock) bool {
	if pred == nil || len(b.Succs) != 2 {
		return true
	}
	ifi, ok := b.Instrs[len(b.Instrs)-1].(*ssa.If)
	if !ok {
		return true
	}
	v, known := evalConstCond(ifi.Cond, phiEnvFor(pred, b))
	if !known {
		v, known = evalEmptinessCond(ifi.Cond, pred, b)
	}
	if !known {
		return true
	}
	if b.Succs[0] == b.Succs[1] {
		return true
	}
	if v {
		return s == b.Succs[0]
	}
	return s == b.Succs[1]
}

// evalEmptinessCond decides "x != nil" / "len(x) > 0" style conditions of block b for the value x has
// when b is entered from pred: nil when the phi's incoming value is the nil constant, non-nil /
// non-empty when the facts known at the end of pred say so about the incoming value (the shape
// "v, ok := take(); if len(v) > 0" takes after the helper is inlined).
func evalEmptinessCond(cond ssa.Value, pred, b *ssa.BasicBlock) (val, ok bool) {
	neg := false
	for {
		if u, isU := cond.(*ssa.UnOp); isU && u.Op == token.NOT {
			cond, neg = u.X, !neg
			continue
		}
		break
	}
	bo, isB := cond.(*ssa.BinOp)
	if !isB {
		return false, false
	}
	env := phiEnvFor(pred, b)
	// facts at the end of pred, including the branch taken towards b
	facts := factsAt(pred)
	if ifi, isIf := pred.Instrs[len(pred.Instrs)-1].(*ssa.If); isIf && len(pred.Succs) == 2 && pred.Succs[0] != pred.Succs[1] {
		facts = append(facts, canonOf(Cond{ifi.Cond, pred.Succs[0] == b, ifi}))
	}
	decide := func(isEmpty, known bool, op token.Token, emptyWhenEq bool) (bool, bool) {
		if !known {
			return false, false
		}
		// the comparison is "x == <empty>" (emptyWhenEq) or "x > / != <empty>"
		r := isEmpty == emptyWhenEq
		_ = op
		if neg {
			r = !r
		}
		return r, true
	}
	subject := func(v ssa.Value) (isEmpty, known bool, viaLen bool) {
		viaLen = false
		if lc, ok := v.(*ssa.Call); ok && isCall(lc, "builtin len") {
			v = lc.Call.Args[0]
			viaLen = true
		}
		rv := resolvePhi(v, env)
		if rv == v {
			if _, isPhi := v.(*ssa.Phi); !isPhi {
				return false, false, viaLen // nothing learnt from the edge
			}
		}
		if isNilConst(rv) {
			return true, true, viaLen
		}
		same := func(x ssa.Value) bool { return x == rv }
		if viaLen && knownNonEmpty(facts, same) {
			return false, true, viaLen
		}
		if !viaLen && knownNonNil(facts, same) {
			return false, true, viaLen
		}
		if viaLen && knownEmpty(facts, same) {
			return true, true, viaLen
		}
		return false, false, viaLen
	}
	x, y, op := bo.X, bo.Y, bo.Op
	if _, isC := x.(*ssa.Const); isC {
		x, y, op = y, x, mirrorOp(op)
	}
	isEmpty, known, viaLen := subject(x)
	if viaLen {
		n, isC := constInt(y)
		if !isC {
			return false, false
		}
		switch {
		case n == 0 && op == token.EQL, n == 0 && op == token.LEQ, n == 1 && op == token.LSS:
			return decide(isEmpty, known, op, true)
		case n == 0 && op == token.NEQ, n == 0 && op == token.GTR, n == 1 && op == token.GEQ:
			return decide(isEmpty, known, op, false)
		}
		return false, false
	}
	if !isNilConst(y) {
		return false, false
	}
	switch op {
	case token.EQL:
		return decide(isEmpty, known, op, true)
	case token.NEQ:
		return decide(isEmpty, known, op, false)
	}
	return false, false
}

// edgeCondResolved: the condition of the edge from->to with a phi of `from` replaced by the value
// it has when `from` was entered through automatonPred.
func edgeCondResolved(from, to *ssa.BasicBlock) (Cond, bool) {
	ifi, ok := from.Instrs[len(from.Instrs)-1].(*ssa.If)
	if !ok || len(from.Succs) != 2 {
		return Cond{}, false
	}
	cd := normCond(Cond{V: ifi.Cond, Sense: to == from.Succs[0], If: ifi})
	if ph, isPhi := cd.V.(*ssa.Phi); isPhi && ph.Block() == from && automatonPred != nil {
		if e, ok := phiEnvFor(automatonPred, from)[ph]; ok {
			cd = normCond(Cond{V: e, Sense: cd.Sense, If: ifi})
		}
	}
	return cd, true
}

// countOnPaths computes, for instructions selected by isEvent, the set of counts {0,1,2+}
// of event executions over all paths from entry to each Return.  Returns the union mask:
// bit0 = some path with 0 events, bit1 = exactly 1, bit2 = 2 or more (loops saturate).
func countOnPaths(fn *ssa.Function, isEvent func(ssa.Instruction) bool) uint32 {
	r := runAutomaton(fn, 0, func(in ssa.Instruction) int {
		if isEvent(in) {
			return 0
		}
		return -1
	}, func(s, e int) int {
		if s >= 2 {
			return 2
		}
		return s + 1
	})
	var m uint32
	for _, s := range r.ExitStates {
		m |= s
	}
	return m
}

func maskString(m uint32) string {
	var p []string
	if m&1 != 0 {
		p = append(p, "0")
	}
	if m&2 != 0 {
		p = append(p, "1")
	}
	if m&4 != 0 {
		p = append(p, ">=2")
	}
	return "{" + strings.Join(p, ",") + "}"
}

// ---------- misc ----------

// derefType strips one pointer.
func derefType(t types.Type) types.Type {
	if p, ok := t.Underlying().(*types.Pointer); ok {
		return p.Elem()
	}
	return t
}

// namedOf returns the *types.Named behind t (through one pointer), or nil.
func namedOf(t types.Type) *types.Named {
	t = derefType(t)
	n, _ := t.(*types.Named)
	return n
}

func typeIs(t types.Type, pkgRel, name string) bool {
	n := namedOf(t)
	if n == nil || n.Obj().Pkg() == nil {
		return false
	}
	return n.Obj().Name() == name && n.Obj().Pkg().Path() == pkgPath(pkgRel)
}

// referrers returns the instructions using v (nil-safe).
func referrers(v ssa.Value) []ssa.Instruction {
	r := v.Referrers()
	if r == nil {
		return nil
	}
	return *r
}

// binop returns v as *ssa.BinOp if it is one with the given ops.
func asBinOp(v ssa.Value, ops ...token.Token) *ssa.BinOp {
	b, ok := v.(*ssa.BinOp)
	if !ok {
		return nil
	}
	for _, o := range ops {
		if b.Op == o {
			return b
		}
	}
	return nil
}

// ---------- natural loops ----------

// loopBody returns the natural loop of header h (h plus every block that h dominates and that
// reaches h through a back edge), or nil if h heads no loop.
func loopBody(h *ssa.BasicBlock) map[*ssa.BasicBlock]bool {
	body := map[*ssa.BasicBlock]bool{h: true}
	var stack []*ssa.BasicBlock
	for _, p := range h.Preds {
		if h.Dominates(p) {
			if !body[p] {
				body[p] = true
				stack = append(stack, p)
			}
		}
	}
	if len(body) == 1 {
		self := false
		for _, p := range h.Preds {
			if p == h {
				self = true
			}
		}
		if !self {
			return nil
		}
	}
	for len(stack) > 0 {
		b := stack[len(stack)-1]
		stack = stack[:len(stack)-1]
		for _, p := range b.Preds {
			if !body[p] && h.Dominates(p) {
				body[p] = true
				stack = append(stack, p)
			}
		}
	}
	return body
}

// earlyExits returns the edges that leave the loop of h from a block other than h itself
// (break, return, goto out of the loop); the exit taken on exhaustion leaves from h.
func earlyExits(h *ssa.BasicBlock) [][2]*ssa.BasicBlock {
	body := loopBody(h)
	var out [][2]*ssa.BasicBlock
	for _, b := range h.Parent().Blocks {
		if !body[b] || b == h {
			continue
		}
		for _, s := range b.Succs {
			if !body[s] {
				out = append(out, [2]*ssa.BasicBlock{b, s})
			}
		}
	}
	return out
}

// ---------- local aliases of reference-typed fields ----------

// aliasTarget: addr is the cell of a local variable (possibly captured by a closure) of reference
// type that is assigned exactly once, from a load of a struct field (mm := a.metricMap).  The
// variable then names the same object as that field load; the stored value is returned so that
// paths are printed (and compared) through the alias.  nil otherwise.
func aliasTarget(addr ssa.Value) ssa.Value {
	var cell *ssa.Alloc
	var owner *ssa.Function
	name := ""
	switch a := addr.(type) {
	case *ssa.Alloc:
		cell, owner = a, a.Parent()
	case *ssa.FreeVar:
		fn := a.Parent()
		for depth := 0; fn != nil && fn.Parent() != nil && depth < 4; depth++ {
			idx := -1
			for i, f := range fn.FreeVars {
				if f.Name() == a.Name() {
					idx = i
				}
			}
			if idx < 0 {
				return nil
			}
			var b ssa.Value
			for _, g := range WithAnon(fn.Parent()) {
				eachInstr(g, func(in ssa.Instruction) {
					if mc, ok := in.(*ssa.MakeClosure); ok && mc.Fn == ssa.Value(fn) && idx < len(mc.Bindings) {
						b = mc.Bindings[idx]
					}
				})
			}
			if al, ok := b.(*ssa.Alloc); ok {
				cell, owner = al, al.Parent()
				break
			}
			if _, ok := b.(*ssa.FreeVar); !ok {
				return nil
			}
			fn = fn.Parent()
		}
	}
	if cell == nil {
		return nil
	}
	name = cell.Comment
	refTyped := false
	switch derefType(cell.Type()).Underlying().(type) {
	case *types.Pointer, *types.Map, *types.Chan, *types.Slice, *types.Interface, *types.Signature:
		refTyped = true
	}
	var val ssa.Value
	n := 0
	for _, ref := range referrers(cell) {
		if st, ok := ref.(*ssa.Store); ok && st.Addr == ssa.Value(cell) {
			n++
			val = st.Val
		}
	}
	if n != 1 {
		return nil
	}
	// no assignment through a closure
	for _, f := range WithAnon(owner)[1:] {
		bad := false
		eachInstr(f, func(in ssa.Instruction) {
			if st, ok := in.(*ssa.Store); ok {
				if fv, ok := st.Addr.(*ssa.FreeVar); ok && fv.Name() == name {
					bad = true
				}
			}
		})
		if bad {
			return nil
		}
	}
	if ld, ok := val.(*ssa.UnOp); ok && ld.Op == token.MUL {
		// a copy of another local that is itself assigned exactly once (x2 := x): the same value for good
		if src, isAl := ld.X.(*ssa.Alloc); isAl && src != cell {
			ns := 0
			for _, ref := range referrers(src) {
				if st, ok := ref.(*ssa.Store); ok && st.Addr == ssa.Value(src) {
					ns++
				}
			}
			closureWrites := false
			for _, f := range WithAnon(src.Parent())[1:] {
				eachInstr(f, func(in ssa.Instruction) {
					if st, ok := in.(*ssa.Store); ok {
						if fv, ok := st.Addr.(*ssa.FreeVar); ok && fv.Name() == src.Comment {
							closureWrites = true
						}
					}
				})
			}
			if ns == 1 && !closureWrites {
				return val
			}
		}
		if fa, isFA := ld.X.(*ssa.FieldAddr); isFA {
			if refTyped {
				return val
			}
			// a copy of a value-typed field is the same value as long as the field never changes after construction
			if theWorld != nil && immutableFields(theWorld)[structName(fa.X.Type())+"."+fieldName(fa.X.Type(), fa.Field)] {
				return val
			}
		}
	}
	return nil
}

// localStructField resolves a load through a field of a struct built in place (tm := &state{th: th,
// mm: newMap}; ... tm.mm ...) to the value the field was constructed with.  It applies only to fields
// that are never written after construction anywhere in the module (immutableFields), so the load
// yields the constructor's value on every path.
func localStructField(fa *ssa.FieldAddr) ssa.Value {
	if st := localStructFieldStore(fa); st != nil {
		return st.Val
	}
	return nil
}

// localStructFieldStore: the one store that gives the field its value (see localStructField).
func localStructFieldStore(fa *ssa.FieldAddr) *ssa.Store {
	if theWorld == nil {
		return nil
	}
	base, ok := ptrOrigin(fa.X).(*ssa.Alloc)
	if !ok {
		return nil
	}
	if _, isStruct := derefType(base.Type()).Underlying().(*types.Struct); !isStruct {
		return nil
	}
	if !immutableFields(theWorld)[structName(fa.X.Type())+"."+fieldName(fa.X.Type(), fa.Field)] && !localStructPrivate(base, fa.Field) {
		return nil
	}
	var val *ssa.Store
	n := 0
	aliases := structAliases(base)
	if tmp := wholeInit(base); tmp != nil {
		// v := T{...} compiled as a temporary literal copied into the variable: the literal's field stores count
		if !localStructPrivate(tmp, fa.Field) || len(structAliases(tmp)) != 1 {
			return nil
		}
		aliases = append(aliases, tmp)
	}
	for _, al := range aliases {
		for _, ref := range referrers(al) {
			f2, ok := ref.(*ssa.FieldAddr)
			if !ok || f2.Field != fa.Field {
				continue
			}
			for _, r2 := range referrers(f2) {
				if st, ok := r2.(*ssa.Store); ok && st.Addr == ssa.Value(f2) {
					n++
					val = st
				}
			}
		}
	}
	if n != 1 {
		return nil
	}
	return val
}

// wholeInit: the variable is written as a whole exactly once, with a copy of a literal built in a
// temporary (v := T{...}); the temporary is returned.
func wholeInit(base *ssa.Alloc) *ssa.Alloc {
	var tmp *ssa.Alloc
	n := 0
	for _, al := range structAliases(base) {
		for _, ref := range referrers(al) {
			st, ok := ref.(*ssa.Store)
			if !ok || st.Addr != al {
				continue
			}
			n++
			if ld, isLd := st.Val.(*ssa.UnOp); isLd && ld.Op == token.MUL {
				if t, isAl := ld.X.(*ssa.Alloc); isAl && t.Comment == "complit" && al == ssa.Value(base) {
					tmp = t
				}
			}
		}
	}
	if n != 1 || tmp == nil {
		return nil
	}
	// the temporary is read only by that copy
	loads := 0
	for _, ref := range referrers(tmp) {
		if _, isLd := ref.(*ssa.UnOp); isLd {
			loads++
		}
	}
	if loads != 1 {
		return nil
	}
	return tmp
}

// structAliases: the struct variable's cell and the free variables of the closures it is captured by.
func structAliases(base *ssa.Alloc) []ssa.Value {
	out := []ssa.Value{base}
	for i := 0; i < len(out); i++ {
		for _, ref := range referrers(out[i]) {
			mc, ok := ref.(*ssa.MakeClosure)
			if !ok {
				continue
			}
			fn, _ := mc.Fn.(*ssa.Function)
			for j, b := range mc.Bindings {
				if b == out[i] && fn != nil && j < len(fn.FreeVars) {
					out = append(out, fn.FreeVars[j])
				}
			}
		}
	}
	return out
}

// localStructPrivate: a struct variable of the function (v := T{...}) whose address is used only to
// reach its fields (in the function and its closures), and whose given field's address is used only
// for loads and stores: every write of the field is then a visible store through one of the aliases.
func localStructPrivate(base *ssa.Alloc, field int) bool {
	for _, al := range structAliases(base) {
		for _, ref := range referrers(al) {
			switch x := ref.(type) {
			case *ssa.FieldAddr:
				if x.Field != field {
					continue
				}
				for _, r2 := range referrers(x) {
					switch y := r2.(type) {
					case *ssa.UnOp, *ssa.DebugRef:
					case *ssa.Store:
						if y.Addr != ssa.Value(x) {
							return false
						}
					default:
						return false
					}
				}
			case *ssa.UnOp, *ssa.DebugRef, *ssa.MakeClosure:
				// a copy of the whole value, or a capture
			case *ssa.Store:
				if x.Addr == ssa.Value(base) && al == ssa.Value(base) && wholeInit(base) != nil {
					continue // the one initialising copy of a literal
				}
				return false
			default:
				return false // whole-value store, the address passed on, ...
			}
		}
	}
	return true
}

// theWorld is the program being analysed (set once by main after loading).
var theWorld *World

// ---------- canonical symbolic rendering with call-through ----------

// renderEnv maps the parameters / free variables of a callee to the rendering of the actual
// arguments / captured variables; root is the function whose parameters are written p0, p1, ...
type renderEnv struct {
	root   *ssa.Function
	params map[*ssa.Parameter]string
	free   map[*ssa.FreeVar]string
}

// symRender prints v as an expression over the root function's parameters (p0, p1, ...), named
// locals / captured variables and fields.  Calls of module functions or local closures whose body
// is a single return expression are rendered as that expression with the arguments substituted,
// so "helper(x)" and the helper's body written in place render identically; local aliases of
// reference-typed fields are resolved.  Used to compare "which object is this" across refactorings.
func symRender(v ssa.Value, env *renderEnv, d int) string {
	if d > 14 {
		return "…"
	}
	rec := func(x ssa.Value) string { return symRender(x, env, d+1) }
	switch x := v.(type) {
	case nil:
		return "<nil>"
	case *ssa.Parameter:
		if s, ok := env.params[x]; ok {
			return s
		}
		if x.Parent() == env.root {
			for i, p := range env.root.Params {
				if p == x {
					return fmt.Sprintf("p%d", i)
				}
			}
		}
		return x.Name()
	case *ssa.FreeVar:
		if s, ok := env.free[x]; ok {
			return s
		}
		return x.Name()
	case *ssa.Alloc:
		if x.Comment != "" && x.Comment != "complit" {
			return x.Comment
		}
		return "alloc"
	case *ssa.UnOp:
		if x.Op == token.MUL {
			if t := aliasTarget(x.X); t != nil {
				return rec(t)
			}
			// a parameter spilled to the stack
			if al, ok := x.X.(*ssa.Alloc); ok {
				var only ssa.Value
				n := 0
				for _, ref := range referrers(al) {
					if st, ok := ref.(*ssa.Store); ok && st.Addr == ssa.Value(al) {
						n++
						only = st.Val
					}
				}
				if n == 1 {
					if _, isP := only.(*ssa.Parameter); isP {
						return rec(only)
					}
				}
			}
			return rec(x.X)
		}
		return x.Op.String() + rec(x.X)
	case *ssa.FieldAddr:
		return rec(x.X) + "." + fieldName(x.X.Type(), x.Field)
	case *ssa.Field:
		return rec(x.X) + "." + fieldName(x.X.Type(), x.Field)
	case *ssa.IndexAddr:
		return rec(x.X) + "[" + rec(x.Index) + "]"
	case *ssa.Index:
		return rec(x.X) + "[" + rec(x.Index) + "]"
	case *ssa.Lookup:
		return rec(x.X) + "[" + rec(x.Index) + "]"
	case *ssa.Extract:
		if lk, ok := x.Tuple.(*ssa.Lookup); ok && x.Index == 0 {
			return rec(lk)
		}
		return rec(x.Tuple) + "#" + fmt.Sprint(x.Index)
	case *ssa.ChangeType:
		return rec(x.X)
	case *ssa.MakeInterface:
		return rec(x.X)
	case *ssa.ChangeInterface:
		return rec(x.X)
	case *ssa.Convert:
		return "conv(" + rec(x.X) + ")"
	case *ssa.Const:
		if x.Value == nil {
			return "nil"
		}
		return x.Value.ExactString()
	case *ssa.BinOp:
		return "(" + rec(x.X) + x.Op.String() + rec(x.Y) + ")"
	case *ssa.Phi:
		seen := map[string]bool{}
		var parts []string
		for _, e := range x.Edges {
			s := rec(e)
			if !seen[s] {
				seen[s] = true
				parts = append(parts, s)
			}
		}
		sort.Strings(parts)
		if len(parts) == 1 {
			return parts[0]
		}
		return "phi(" + strings.Join(parts, "|") + ")"
	case *ssa.Call:
		callee, bindings := localCallee(x)
		var args []string
		for _, a := range x.Call.Args {
			args = append(args, rec(a))
		}
		if callee != nil && len(callee.Blocks) == 1 && !isBaselineFunc(callee) {
			if ret, ok := callee.Blocks[0].Instrs[len(callee.Blocks[0].Instrs)-1].(*ssa.Return); ok && len(ret.Results) == 1 && pureBlock(callee.Blocks[0]) {
				env2 := &renderEnv{root: env.root, params: map[*ssa.Parameter]string{}, free: map[*ssa.FreeVar]string{}}
				for i, p := range callee.Params {
					if i < len(args) {
						env2.params[p] = args[i]
					}
				}
				for i, fv := range callee.FreeVars {
					if i < len(bindings) {
						env2.free[fv] = rec(bindings[i])
					}
				}
				return symRender(ret.Results[0], env2, d+1)
			}
		}
		return strings.ReplaceAll(calleeName(x), Mod+"/", "") + "(" + strings.Join(args, ",") + ")"
	}
	return pathOf(v)
}

// localCallee: the module function or function literal called by x (directly, through a closure
// value, or through a local variable that is assigned that closure exactly once).
func localCallee(x *ssa.Call) (*ssa.Function, []ssa.Value) {
	if x.Call.IsInvoke() {
		return nil, nil
	}
	var resolve func(v ssa.Value, d int) (*ssa.Function, []ssa.Value)
	resolve = func(v ssa.Value, d int) (*ssa.Function, []ssa.Value) {
		if d > 4 {
			return nil, nil
		}
		switch f := v.(type) {
		case *ssa.Function:
			if IsModule(f) && f.Blocks != nil {
				return f, nil
			}
		case *ssa.MakeClosure:
			if fn, ok := f.Fn.(*ssa.Function); ok {
				return fn, f.Bindings
			}
		case *ssa.UnOp:
			if f.Op != token.MUL {
				return nil, nil
			}
			cell := cellOf(f.X)
			if cell == nil {
				return nil, nil
			}
			var val ssa.Value
			n := 0
			for _, ref := range referrers(cell) {
				if st, ok := ref.(*ssa.Store); ok && st.Addr == ssa.Value(cell) {
					n++
					val = st.Val
				}
			}
			if n == 1 {
				return resolve(val, d+1)
			}
		}
		return nil, nil
	}
	return resolve(x.Call.Value, 0)
}

// cellOf: the Alloc behind a local variable address or a captured variable.
func cellOf(addr ssa.Value) *ssa.Alloc {
	switch a := addr.(type) {
	case *ssa.Alloc:
		return a
	case *ssa.FreeVar:
		fn := a.Parent()
		for depth := 0; fn != nil && fn.Parent() != nil && depth < 4; depth++ {
			idx := -1
			for i, f := range fn.FreeVars {
				if f.Name() == a.Name() {
					idx = i
				}
			}
			if idx < 0 {
				return nil
			}
			var b ssa.Value
			for _, g := range WithAnon(fn.Parent()) {
				eachInstr(g, func(in ssa.Instruction) {
					if mc, ok := in.(*ssa.MakeClosure); ok && mc.Fn == ssa.Value(fn) && idx < len(mc.Bindings) {
						b = mc.Bindings[idx]
					}
				})
			}
			if al, ok := b.(*ssa.Alloc); ok {
				return al
			}
			if _, ok := b.(*ssa.FreeVar); !ok {
				return nil
			}
			fn = fn.Parent()
		}
	}
	return nil
}

// pureBlock: the block has no stores, sends, go/defer or map updates (an expression body).
func pureBlock(b *ssa.BasicBlock) bool {
	for _, in := range b.Instrs {
		switch in.(type) {
		case *ssa.Store, *ssa.MapUpdate, *ssa.Send, *ssa.Go, *ssa.Defer, *ssa.Panic:
			return false
		}
	}
	return true
}

var baselineSet map[string]bool

// isBaselineFunc: fn is a declared function that exists on the pinned tree (an anchor the rules
// may name); function literals and helpers introduced later are not.
func isBaselineFunc(fn *ssa.Function) bool {
	if fn.Parent() != nil {
		return false
	}
	if baselineSet == nil {
		baselineSet = baselineFuncs()
	}
	if obj, ok := fn.Object().(*types.Func); ok {
		return baselineSet[obj.FullName()]
	}
	return true
}

// ---------- canonical branch facts ----------

// canonCond is a comparison known to be TRUE at a block, with negation folded into the operator.
type canonCond struct {
	Op   token.Token // EQL NEQ LSS LEQ GTR GEQ, or ILLEGAL for a non-comparison value known to be (Sense)
	X, Y ssa.Value
	V    ssa.Value // for non-comparisons
	True bool
	If   *ssa.If
}

func negOp(op token.Token) token.Token {
	switch op {
	case token.EQL:
		return token.NEQ
	case token.NEQ:
		return token.EQL
	case token.LSS:
		return token.GEQ
	case token.GEQ:
		return token.LSS
	case token.GTR:
		return token.LEQ
	case token.LEQ:
		return token.GTR
	}
	return token.ILLEGAL
}

func mirrorOp(op token.Token) token.Token {
	switch op {
	case token.LSS:
		return token.GTR
	case token.GTR:
		return token.LSS
	case token.LEQ:
		return token.GEQ
	case token.GEQ:
		return token.LEQ
	}
	return op
}

// canonOf folds negations into a condition.
func canonOf(c Cond) canonCond {
	c = normCond(c)
	if b, ok := c.V.(*ssa.BinOp); ok {
		op := b.Op
		if negOp(op) != token.ILLEGAL {
			if !c.Sense {
				op = negOp(op)
			}
			return canonCond{Op: op, X: b.X, Y: b.Y, If: c.If, True: true}
		}
	}
	return canonCond{Op: token.ILLEGAL, V: c.V, True: c.Sense, If: c.If}
}

// factsAt: the canonical branch facts that hold on entry to b.
func factsAt(b *ssa.BasicBlock) []canonCond {
	var out []canonCond
	for _, c := range condsFor(b) {
		out = append(out, canonOf(c))
	}
	return out
}

// cmpHolds: some fact at b states  x op y  (in either operand order) for operands accepted by mx, my.
func cmpHolds(facts []canonCond, mx, my func(ssa.Value) bool, ops ...token.Token) bool {
	has := func(op token.Token) bool {
		for _, o := range ops {
			if o == op {
				return true
			}
		}
		return false
	}
	for _, f := range facts {
		if f.Op == token.ILLEGAL {
			continue
		}
		if mx(f.X) && my(f.Y) && has(f.Op) {
			return true
		}
		if mx(f.Y) && my(f.X) && has(mirrorOp(f.Op)) {
			return true
		}
	}
	return false
}

// callKnown: a call accepted by pred is known to have returned want (a boolean call used as a branch condition).
func callKnown(facts []canonCond, pred func(*ssa.Call) bool, want bool) bool {
	for _, f := range facts {
		if f.Op != token.ILLEGAL || f.True != want {
			continue
		}
		if cl, ok := f.V.(*ssa.Call); ok && pred(cl) {
			return true
		}
	}
	return false
}

// boolKnown: a boolean value accepted by mv (e.g. a flag field) is known to be want.
func boolKnown(facts []canonCond, mv func(ssa.Value) bool, want bool) bool {
	for _, f := range facts {
		if f.Op == token.ILLEGAL && f.True == want && f.V != nil && mv(f.V) {
			return true
		}
	}
	return false
}

// knownNonNil: v != nil holds at b.
func knownNonNil(facts []canonCond, mv func(ssa.Value) bool) bool {
	return cmpHolds(facts, mv, isNilConst, token.NEQ)
}

// knownNonEmpty: len(v) > 0 holds (spelled > 0, != 0, >= 1, or mirrored).
func knownNonEmpty(facts []canonCond, mv func(ssa.Value) bool) bool {
	isLen := func(x ssa.Value) bool {
		c, ok := x.(*ssa.Call)
		return ok && isCall(c, "builtin len") && mv(c.Call.Args[0])
	}
	isK := func(k int64) func(ssa.Value) bool {
		return func(x ssa.Value) bool { n, ok := constInt(x); return ok && n == k }
	}
	return cmpHolds(facts, isLen, isK(0), token.GTR, token.NEQ) || cmpHolds(facts, isLen, isK(1), token.GEQ)
}

// ---------- feasible reachability (constant propagation of phis along the path) ----------

// evalConstCond evaluates cond to a boolean if, with the phi values fixed by the path walked so
// far, it is a boolean constant (possibly negated).
func evalConstCond(cond ssa.Value, env map[*ssa.Phi]ssa.Value) (val, ok bool) {
	cond = resolvePhi(cond, env)
	switch x := cond.(type) {
	case *ssa.Const:
		if x.Value != nil && x.Value.Kind() == constant.Bool {
			return constant.BoolVal(x.Value), true
		}
	case *ssa.UnOp:
		if x.Op == token.NOT {
			v, ok := evalConstCond(x.X, env)
			return !v, ok
		}
	case *ssa.BinOp:
		if x.Op == token.EQL || x.Op == token.NEQ {
			l, lok := evalConstCond(x.X, env)
			r, rok := evalConstCond(x.Y, env)
			if lok && rok {
				return (l == r) == (x.Op == token.EQL), true
			}
		}
		// two constants (after fixing the phis): numbers, strings, nil
		cx, okx := resolvePhi(x.X, env).(*ssa.Const)
		cy, oky := resolvePhi(x.Y, env).(*ssa.Const)
		if okx && oky {
			if cx.Value == nil && cy.Value == nil {
				switch x.Op {
				case token.EQL:
					return true, true
				case token.NEQ:
					return false, true
				}
			}
			if cx.Value != nil && cy.Value != nil && cx.Value.Kind() == cy.Value.Kind() && cx.Value.Kind() != constant.Bool && cx.Value.Kind() != constant.Unknown {
				switch x.Op {
				case token.EQL, token.NEQ, token.LSS, token.LEQ, token.GTR, token.GEQ:
					return constant.Compare(cx.Value, x.Op, cy.Value), true
				}
			}
		}
	}
	return false, false
}

// feasiblyReaches: starting along the edge from->to, is an instruction accepted by target reachable
// without entering a block of avoid and without continuing past a block of stop, when branches on
// conditions that are constant on the path (values of flags carried by phis) are followed only in
// their feasible direction?  Conservative: an exhausted budget counts as reachable.
func feasiblyReaches(from, to *ssa.BasicBlock, avoid, stop map[*ssa.BasicBlock]bool, target func(ssa.Instruction) bool) bool {
	type state struct {
		b   *ssa.BasicBlock
		key string
	}
	seen := map[state]bool{}
	budget := 20000
	var walk func(prev, b *ssa.BasicBlock, env map[*ssa.Phi]ssa.Value) bool
	envKey := func(env map[*ssa.Phi]ssa.Value) string {
		var ks []string
		for p, v := range env {
			if c, ok := v.(*ssa.Const); ok && c.Value != nil && c.Value.Kind() == constant.Bool {
				ks = append(ks, p.Name()+"="+c.Value.String())
			}
		}
		sort.Strings(ks)
		return strings.Join(ks, ",")
	}
	walk = func(prev, b *ssa.BasicBlock, env map[*ssa.Phi]ssa.Value) bool {
		if avoid[b] {
			return false
		}
		budget--
		if budget < 0 {
			return true
		}
		env2 := map[*ssa.Phi]ssa.Value{}
		for k, v := range env {
			env2[k] = v
		}
		enterBlock(env2, prev, b)
		st := state{b, envKey(env2)}
		if seen[st] {
			return false
		}
		seen[st] = true
		for _, in := range b.Instrs {
			if target(in) {
				return true
			}
		}
		if stop[b] {
			return false
		}
		if ifi, ok := b.Instrs[len(b.Instrs)-1].(*ssa.If); ok {
			if v, known := evalConstCond(ifi.Cond, env2); known {
				if v {
					return walk(b, b.Succs[0], env2)
				}
				return walk(b, b.Succs[1], env2)
			}
		}
		for _, s := range b.Succs {
			if walk(b, s, env2) {
				return true
			}
		}
		return false
	}
	return walk(from, to, map[*ssa.Phi]ssa.Value{})
}

// knownEmpty: len(v) == 0 holds (spelled == 0, <= 0, < 1, or mirrored).
func knownEmpty(facts []canonCond, mv func(ssa.Value) bool) bool {
	isLen := func(x ssa.Value) bool {
		c, ok := x.(*ssa.Call)
		return ok && isCall(c, "builtin len") && mv(c.Call.Args[0])
	}
	isK := func(k int64) func(ssa.Value) bool {
		return func(x ssa.Value) bool { n, ok := constInt(x); return ok && n == k }
	}
	return cmpHolds(facts, isLen, isK(0), token.EQL, token.LEQ) || cmpHolds(facts, isLen, isK(1), token.LSS)
}

// knownNil: v == nil holds.
func knownNil(facts []canonCond, mv func(ssa.Value) bool) bool {
	return cmpHolds(facts, mv, isNilConst, token.EQL)
}

// byteSliceConst: v is a []byte whose contents are a compile-time constant: []byte("..."),
// []byte{'a', ...}, or a package-level variable initialised that way and never assigned again.
func byteSliceConst(w *World, v ssa.Value, d int) (string, bool) {
	if d > 3 {
		return "", false
	}
	switch x := v.(type) {
	case *ssa.Convert:
		if s, ok := constString(x.X); ok {
			return s, true
		}
	case *ssa.Slice:
		var arr ssa.Value = x.X
		if x.Low != nil || x.High != nil {
			return "", false
		}
		al, ok := arr.(*ssa.Alloc)
		if !ok {
			if g, isG := arr.(*ssa.Global); isG {
				// package-level composite literals are built in a hidden global array
				return globalArrayBytes(w, g)
			}
			return "", false
		}
		n, ok := arrayLen(derefType(al.Type()))
		if !ok {
			return "", false
		}
		buf := make([]byte, n)
		set := 0
		for _, ref := range referrers(al) {
			ia, ok := ref.(*ssa.IndexAddr)
			if !ok {
				continue
			}
			idx, okI := constInt(ia.Index)
			for _, r2 := range referrers(ia) {
				if st, ok := r2.(*ssa.Store); ok && st.Addr == ssa.Value(ia) {
					b, okB := constInt(st.Val)
					if !okI || !okB || idx < 0 || idx >= n {
						return "", false
					}
					buf[idx] = byte(b)
					set++
				}
			}
		}
		if int64(set) != n {
			return "", false
		}
		return string(buf), true
	case *ssa.UnOp:
		if x.Op != token.MUL {
			return "", false
		}
		g, ok := x.X.(*ssa.Global)
		if !ok {
			return "", false
		}
		var val ssa.Value
		stores := 0
		for _, fn := range w.ModuleFuncs() {
			eachInstr(fn, func(in ssa.Instruction) {
				if st, ok := in.(*ssa.Store); ok && st.Addr == ssa.Value(g) {
					stores++
					val = st.Val
				}
			})
		}
		if init := g.Pkg.Func("init"); init != nil {
			eachInstr(init, func(in ssa.Instruction) {
				if st, ok := in.(*ssa.Store); ok && st.Addr == ssa.Value(g) {
					stores++
					val = st.Val
				}
			})
		}
		if stores != 1 {
			return "", false
		}
		return byteSliceConst(w, val, d+1)
	}
	return "", false
}

// stringTableElems: v is an element read, in a loop that covers every index, of a package-level
// array / slice variable initialised once with constant strings (a table); returns the strings.
// localStringTable: v is the element, selected by a loop counter that covers the whole array, of a local
// array of string constants ([...]string{"a", "b"} ranged over in the same function).
func localStringTable(v ssa.Value) ([]string, bool) {
	var al *ssa.Alloc
	var index ssa.Value
	switch x := v.(type) {
	case *ssa.Index:
		if u, ok := x.X.(*ssa.UnOp); ok && u.Op == token.MUL {
			al, _ = u.X.(*ssa.Alloc)
			index = x.Index
		}
	case *ssa.UnOp:
		if ia, ok := x.X.(*ssa.IndexAddr); ok && x.Op == token.MUL {
			al, _ = ia.X.(*ssa.Alloc)
			index = ia.Index
		}
	}
	if al == nil {
		return nil, false
	}
	n, ok := arrayLen(derefType(al.Type()))
	if !ok {
		return nil, false
	}
	vals := map[int64]string{}
	for _, ref := range referrers(al) {
		switch r := ref.(type) {
		case *ssa.IndexAddr:
			idx, isC := constInt(r.Index)
			stored := false
			for _, r2 := range referrers(r) {
				switch y := r2.(type) {
				case *ssa.Store:
					if y.Addr != ssa.Value(r) {
						return nil, false
					}
					sv, isS := constString(y.Val)
					if !isC || !isS {
						return nil, false
					}
					vals[idx] = sv
					stored = true
				case *ssa.UnOp:
				default:
					return nil, false
				}
			}
			_ = stored
		case *ssa.UnOp:
			// a copy of the whole array (range over the array value)
		default:
			return nil, false
		}
	}
	if int64(len(vals)) != n {
		return nil, false
	}
	var ph *ssa.Phi
	if p, ok := index.(*ssa.Phi); ok {
		ph = p
	} else if b := asBinOp(index, token.ADD); b != nil {
		ph, _ = b.X.(*ssa.Phi)
	}
	if ph == nil {
		return nil, false
	}
	covers := false
	for _, e := range ph.Edges {
		if b := asBinOp(e, token.ADD); b != nil && b.X == ssa.Value(ph) {
			for _, ref := range referrers(b) {
				if c, ok := ref.(*ssa.BinOp); ok && c.Op == token.LSS && c.X == ssa.Value(b) {
					if k, isC := constInt(c.Y); isC && k == n {
						covers = true
					}
				}
			}
		}
	}
	for _, ref := range referrers(ph) {
		if c, ok := ref.(*ssa.BinOp); ok && c.Op == token.LSS && c.X == ssa.Value(ph) {
			if k, isC := constInt(c.Y); isC && k == n {
				covers = true
			}
		}
	}
	if !covers {
		return nil, false
	}
	out := make([]string, n)
	for i, s := range vals {
		out[i] = s
	}
	return out, true
}

func stringTableElems(w *World, v ssa.Value) ([]string, bool) {
	if tab, ok := localStringTable(v); ok {
		return tab, true
	}
	var g *ssa.Global
	var sliceOf ssa.Value
	var index ssa.Value
	if ix, isIx := v.(*ssa.Index); isIx {
		// element of a copy of an array variable (range over an array value)
		if u, ok := ix.X.(*ssa.UnOp); ok && u.Op == token.MUL {
			if gg, isG := u.X.(*ssa.Global); isG {
				g, index = gg, ix.Index
			}
		}
	} else if ld, ok := v.(*ssa.UnOp); ok && ld.Op == token.MUL {
		if ia, ok := ld.X.(*ssa.IndexAddr); ok {
			index = ia.Index
			switch b := ia.X.(type) {
			case *ssa.Global:
				g = b
			case *ssa.UnOp:
				if gg, isG := b.X.(*ssa.Global); isG && b.Op == token.MUL {
					g = gg
					sliceOf = b
				}
			}
		}
	}
	if g == nil {
		return nil, false
	}
	// written only by the package initialiser
	for _, fn := range w.ModuleFuncs() {
		if fn.Name() == "init" {
			continue
		}
		written := false
		eachInstr(fn, func(in ssa.Instruction) {
			switch x := in.(type) {
			case *ssa.Store:
				if x.Addr == ssa.Value(g) {
					written = true
				}
				if ia2, ok := x.Addr.(*ssa.IndexAddr); ok {
					if ia2.X == ssa.Value(g) {
						written = true
					}
					if u, ok := ia2.X.(*ssa.UnOp); ok && u.X == ssa.Value(g) {
						written = true
					}
				}
			}
		})
		if written {
			return nil, false
		}
	}
	// the loop covers the table
	var ph *ssa.Phi
	if p, ok := index.(*ssa.Phi); ok {
		ph = p
	} else if b := asBinOp(index, token.ADD); b != nil {
		ph, _ = b.X.(*ssa.Phi)
	}
	if ph == nil {
		return nil, false
	}
	covers := false
	if sliceOf != nil {
		covers = loopCoversSlice(ph, sliceOf)
	} else if n, ok := arrayLen(derefType(g.Type())); ok {
		// range over an array: index from -1/0 in steps of one, compared with the constant length
		for _, cand := range []ssa.Value{ph} {
			for _, e := range ph.Edges {
				if b := asBinOp(e, token.ADD); b != nil && b.X == ssa.Value(ph) {
					for _, ref := range referrers(b) {
						if c, ok := ref.(*ssa.BinOp); ok && c.Op == token.LSS && c.X == ssa.Value(b) {
							if k, isC := constInt(c.Y); isC && k == n {
								covers = true
							}
						}
					}
				}
			}
			for _, ref := range referrers(cand) {
				if c, ok := ref.(*ssa.BinOp); ok && c.Op == token.LSS && c.X == cand {
					if k, isC := constInt(c.Y); isC && k == n {
						covers = true
					}
				}
			}
		}
	}
	if !covers {
		return nil, false
	}
	init := g.Pkg.Func("init")
	if init == nil {
		return nil, false
	}
	// element stores in init: directly into the array global, or into the backing array of the slice stored to it
	var base ssa.Value = g
	if sliceOf == nil {
		// an array built in a temporary and copied into the variable as a whole
		eachInstr(init, func(in ssa.Instruction) {
			if st, ok := in.(*ssa.Store); ok && st.Addr == ssa.Value(g) {
				if u, ok := st.Val.(*ssa.UnOp); ok && u.Op == token.MUL {
					if al, ok := u.X.(*ssa.Alloc); ok {
						base = al
					}
				}
			}
		})
	}
	if sliceOf != nil {
		base = nil
		eachInstr(init, func(in ssa.Instruction) {
			if st, ok := in.(*ssa.Store); ok && st.Addr == ssa.Value(g) {
				if sl, ok := st.Val.(*ssa.Slice); ok {
					base = sl.X
				}
			}
		})
		if base == nil {
			return nil, false
		}
	}
	vals := map[int64]string{}
	bad := false
	eachInstr(init, func(in ssa.Instruction) {
		ia2, ok := in.(*ssa.IndexAddr)
		if !ok || ia2.X != base {
			return
		}
		idx, okI := constInt(ia2.Index)
		for _, r2 := range referrers(ia2) {
			if st, ok := r2.(*ssa.Store); ok && st.Addr == ssa.Value(ia2) {
				sv, okS := constString(st.Val)
				if !okI || !okS {
					bad = true
					return
				}
				vals[idx] = sv
			}
		}
	})
	if bad || len(vals) == 0 {
		return nil, false
	}
	var out []string
	for i := int64(0); i < int64(len(vals)); i++ {
		sv, ok := vals[i]
		if !ok {
			return nil, false
		}
		out = append(out, sv)
	}
	return out, true
}

func globalArrayBytes(w *World, g *ssa.Global) (string, bool) {
	init := g.Pkg.Func("init")
	if init == nil {
		return "", false
	}
	n, ok := arrayLen(derefType(g.Type()))
	if !ok {
		return "", false
	}
	buf := make([]byte, n)
	set := int64(0)
	bad := false
	eachInstr(init, func(in ssa.Instruction) {
		ia, ok := in.(*ssa.IndexAddr)
		if !ok || ia.X != ssa.Value(g) {
			return
		}
		idx, okI := constInt(ia.Index)
		for _, r2 := range referrers(ia) {
			if st, ok := r2.(*ssa.Store); ok && st.Addr == ssa.Value(ia) {
				b, okB := constInt(st.Val)
				if !okI || !okB || idx < 0 || idx >= n {
					bad = true
					return
				}
				buf[idx] = byte(b)
				set++
			}
		}
	})
	if bad || set != n {
		return "", false
	}
	return string(buf), true
}

// ---------- string prefix / suffix idioms ----------

func litIs(v ssa.Value, lit string) bool { c, ok := constString(v); return ok && c == lit }

// strPrefixTest: v is a boolean meaning "S starts (ends) with lit": strings.HasPrefix(S, lit) or
// the second result of strings.CutPrefix(S, lit).  Returns S.
func strPrefixTest(v ssa.Value, lit string, suffix bool) (ssa.Value, bool) {
	has, cut := "strings.HasPrefix", "strings.CutPrefix"
	if suffix {
		has, cut = "strings.HasSuffix", "strings.CutSuffix"
	}
	switch x := v.(type) {
	case *ssa.Call:
		if isCall(x, has) && litIs(x.Call.Args[1], lit) {
			return x.Call.Args[0], true
		}
		// a local predicate whose body is that test
		if callee, _ := localCallee(x); callee != nil && len(callee.Params) == 1 && len(x.Call.Args) == 1 {
			want := has + "(p0," + fmt.Sprintf("%q", lit) + ")"
			if predicateRenders(callee, want) {
				return x.Call.Args[0], true
			}
		}
	case *ssa.Extract:
		if c, ok := x.Tuple.(*ssa.Call); ok && x.Index == 1 && isCall(c, cut) && litIs(c.Call.Args[1], lit) {
			return c.Call.Args[0], true
		}
	}
	return nil, false
}

// predicateRenders: fn is a single-expression function whose result renders as want (over p0..).
func predicateRenders(fn *ssa.Function, want string) bool {
	if fn == nil || len(fn.Blocks) != 1 {
		return false
	}
	ret, ok := fn.Blocks[0].Instrs[len(fn.Blocks[0].Instrs)-1].(*ssa.Return)
	if !ok || len(ret.Results) != 1 {
		return false
	}
	return symRender(ret.Results[0], &renderEnv{root: fn}, 0) == want
}

// strStripped: v is S with the prefix (suffix) lit removed: S[len(lit):] / S[:len(S)-len(lit)]
// (needsGuard: only correct when the test succeeded), the first result of strings.Cut*(S, lit),
// or strings.Trim*(S, lit).
func strStripped(v ssa.Value, lit string, suffix bool) (src ssa.Value, needsGuard, ok bool) {
	cut, trim := "strings.CutPrefix", "strings.TrimPrefix"
	if suffix {
		cut, trim = "strings.CutSuffix", "strings.TrimSuffix"
	}
	switch x := v.(type) {
	case *ssa.Extract:
		if c, isC := x.Tuple.(*ssa.Call); isC && x.Index == 0 && isCall(c, cut) && litIs(c.Call.Args[1], lit) {
			return c.Call.Args[0], false, true
		}
	case *ssa.Call:
		if isCall(x, trim) && litIs(x.Call.Args[1], lit) {
			return x.Call.Args[0], false, true
		}
	case *ssa.Slice:
		if !suffix {
			if lo, isC := constInt(x.Low); isC && lo == int64(len(lit)) && x.High == nil {
				return x.X, true, true
			}
		} else if x.High != nil {
			if b := asBinOp(x.High, token.SUB); b != nil {
				if k, isC := constInt(b.Y); isC && k == int64(len(lit)) && strings.Contains(pathOf(b.X), "builtin len") {
					if lo, isL := constInt(x.Low); x.Low == nil || (isL && lo == 0) {
						return x.X, true, true
					}
				}
			}
		}
	}
	return nil, false, false
}

// firstMatchOf: v is s[idx] with idx = slices.IndexFunc(s, pred) and idx >= 0 known at block b;
// returns the predicate function.
func firstMatchOf(v ssa.Value, b *ssa.BasicBlock) (*ssa.Function, bool) {
	ld, ok := v.(*ssa.UnOp)
	if !ok || ld.Op != token.MUL {
		return nil, false
	}
	ia, ok := ld.X.(*ssa.IndexAddr)
	if !ok {
		return nil, false
	}
	call, ok := ia.Index.(*ssa.Call)
	if !ok || !strings.HasPrefix(calleeName(call), "slices.IndexFunc") {
		return nil, false
	}
	isIdx := func(x ssa.Value) bool { return x == ssa.Value(call) }
	isZero := func(x ssa.Value) bool { n, ok := constInt(x); return ok && n == 0 }
	isM1 := func(x ssa.Value) bool { n, ok := constInt(x); return ok && n == -1 }
	fs := factsAt(b)
	if !(cmpHolds(fs, isIdx, isZero, token.GEQ) || cmpHolds(fs, isIdx, isM1, token.GTR, token.NEQ)) {
		return nil, false
	}
	if pathOf(call.Call.Args[0]) != pathOf(ia.X) {
		return nil, false
	}
	switch f := call.Call.Args[1].(type) {
	case *ssa.Function:
		return f, true
	case *ssa.MakeClosure:
		if fn, ok := f.Fn.(*ssa.Function); ok {
			return fn, true
		}
	}
	return nil, false
}

// globalInitValue: the value a package-level variable is initialised with, if that is its only
// assignment in the module (an effectively constant global).
func globalInitValue(w *World, g *ssa.Global) ssa.Value {
	var val ssa.Value
	stores := 0
	visit := func(fn *ssa.Function) {
		eachInstr(fn, func(in ssa.Instruction) {
			if st, ok := in.(*ssa.Store); ok && st.Addr == ssa.Value(g) {
				stores++
				val = st.Val
			}
		})
	}
	for _, fn := range w.ModuleFuncs() {
		visit(fn)
	}
	if init := g.Pkg.Func("init"); init != nil {
		visit(init)
	}
	if stores != 1 {
		return nil
	}
	return val
}

// firstPos: the first valid source position among the instructions of b.
func firstPos(b *ssa.BasicBlock) token.Pos {
	for _, in := range b.Instrs {
		if in.Pos().IsValid() {
			return in.Pos()
		}
	}
	return token.NoPos
}

// holdsAtOrViaFlag: pred holds for the facts at b, or b is entered under a boolean flag (a phi that is the
// result of an inlined predicate: res = true on some edges, false on the others) and pred holds for the
// facts on every incoming edge that carries the flag's value.  This is how "if hasAnyPrefix(tv, names)"
// written through a helper states the same fact as the helper's body written in place.
func holdsAtOrViaFlag(b *ssa.BasicBlock, pred func(facts []canonCond) bool) bool {
	facts := factsAt(b)
	if pred(facts) {
		return true
	}
	for _, f := range facts {
		if f.Op != token.ILLEGAL {
			continue
		}
		ph, ok := f.V.(*ssa.Phi)
		if !ok || !isBoolType(ph.Type()) {
			continue
		}
		all, any := true, false
		for _, vc := range valueCases(ph, nil) {
			if vc.V == ssa.Value(ph) {
				continue // carried around a loop unchanged: it got its value on one of the other edges
			}
			k, isC := vc.V.(*ssa.Const)
			if isC && k.Value != nil && isBoolType(k.Type()) {
				if (k.Value.ExactString() == "true") != f.True {
					continue // this edge does not lead here
				}
			}
			any = true
			var cf []canonCond
			for _, cd := range vc.Conds {
				cf = append(cf, canonOf(cd))
			}
			if !isC {
				// the flag is a computed boolean on this edge: it is itself a fact with the flag's sense
				cf = append(cf, canonOf(Cond{V: vc.V, Sense: f.True}))
			}
			if !pred(cf) {
				all = false
			}
		}
		if any && all {
			return true
		}
	}
	// the same through an integer code (status := 0 on the success path, an error code on the others;
	// "if status != 0 { ...; return }"): b is entered under  phi ==/!= k  and pred holds on every incoming
	// edge whose value is compatible with that
	for _, f := range facts {
		if f.Op != token.EQL && f.Op != token.NEQ {
			continue
		}
		ph, isPhi := f.X.(*ssa.Phi)
		kv := f.Y
		if !isPhi {
			ph, isPhi = f.Y.(*ssa.Phi)
			kv = f.X
		}
		k, isK := constInt(kv)
		if !isPhi || !isK {
			continue
		}
		if bt, ok := ph.Type().Underlying().(*types.Basic); !ok || bt.Info()&types.IsInteger == 0 {
			continue
		}
		all, any := true, false
		for _, vc := range valueCases(ph, nil) {
			if c, isC := constInt(vc.V); isC {
				if (c == k) != (f.Op == token.EQL) {
					continue
				}
			}
			var cf []canonCond
			for _, cd := range vc.Conds {
				cf = append(cf, canonOf(cd))
			}
			if _, isC := constInt(vc.V); !isC {
				// the value on this edge is not a constant: it takes part only if the edge's own conditions
				// do not already state the opposite (the error code is returned where it was found non-zero)
				src := vc.V
				if cmpHolds(cf, func(v ssa.Value) bool { return v == src }, func(v ssa.Value) bool { c, ok := constInt(v); return ok && c == k }, negOp(f.Op)) {
					continue
				}
				cf = append(cf, canonCond{Op: f.Op, X: vc.V, Y: kv, True: true})
			}
			any = true
			if !pred(cf) {
				all = false
			}
		}
		if any && all {
			return true
		}
	}
	return false
}

// canonPath is pathOf with the fields of state structs built in place (tm := &state{mm: x}) replaced by the
// values they were constructed with: "tm.mm.Timers" and "x.Timers" denote the same collection.  Used where two
// access paths are compared for identity; not for rules that look at field names.
var pathResolveStructs bool

func canonPath(v ssa.Value) string {
	old := pathResolveStructs
	pathResolveStructs = true
	defer func() { pathResolveStructs = old }()
	return pathOf(v)
}

// structTableRows: the rows of local tables written as an array / slice literal of structs
// ([...]struct{...}{{a, b}, {c, d}}): for each element, the value stored into each field (by field index).
// The compiler builds a row either in place (&t[i].f = v) or in a temporary literal that is copied in.
func structTableRows(fn *ssa.Function) []map[int]ssa.Value {
	var out []map[int]ssa.Value
	eachInstr(fn, func(in ssa.Instruction) {
		ia, ok := in.(*ssa.IndexAddr)
		if !ok {
			return
		}
		if _, isAl := ia.X.(*ssa.Alloc); !isAl {
			return
		}
		if _, isStruct := derefType(ia.Type()).Underlying().(*types.Struct); !isStruct {
			return
		}
		var refs []ssa.Instruction
		refs = append(refs, referrers(ia)...)
		for _, rf := range referrers(ia) {
			if st, ok := rf.(*ssa.Store); ok && st.Addr == ssa.Value(ia) {
				if ld, isLd := st.Val.(*ssa.UnOp); isLd && ld.Op == token.MUL {
					if tmp, isAl := ld.X.(*ssa.Alloc); isAl {
						refs = append(refs, referrers(tmp)...)
					}
				}
			}
		}
		row := map[int]ssa.Value{}
		for _, rf := range refs {
			fa, ok := rf.(*ssa.FieldAddr)
			if !ok {
				continue
			}
			for _, r2 := range referrers(fa) {
				if st, ok := r2.(*ssa.Store); ok && st.Addr == ssa.Value(fa) {
					row[fa.Field] = st.Val
				}
			}
		}
		if len(row) > 0 {
			out = append(out, row)
		}
	})
	return out
}
