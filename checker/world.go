package main

import (
	"fmt"
	"go/token"
	"go/types"
	"os"
	"regexp"
	"sort"
	"strings"

	"golang.org/x/tools/go/callgraph"
	"golang.org/x/tools/go/callgraph/cha"
	"golang.org/x/tools/go/callgraph/vta"
	"golang.org/x/tools/go/packages"
	"golang.org/x/tools/go/ssa"
	"golang.org/x/tools/go/ssa/ssautil"
)

// Mod is the module path of the analysed repository.
const Mod = "github.com/atlassian/gostatsd"

// World is the resolved program: type-checked packages, SSA, call graphs.
type World struct {
	Dissolved map[string]string // anchors that no longer exist -> the only caller they had (rules are applied there)
	Repo      string
	Pkgs      []*packages.Package
	ByPath    map[string]*packages.Package
	Prog      *ssa.Program
	SSAPkgs   map[string]*ssa.Package
	Fset      *token.FileSet

	cgCHA *callgraph.Graph
	cgVTA *callgraph.Graph

	allFuncs map[*ssa.Function]bool

	// Dead: full names of helpers that the normalisation pass (norm.go) inlined everywhere; they
	// are no longer part of the program that runs and are skipped by ModuleFuncs.
	Dead    map[string]bool
	NormLog []string
}

// LoadWorld loads every package of the module from the working tree at repo,
// type-checks from source and builds SSA for the whole program.  Any load or
// type error is fatal: the checker never gives a verdict on a partial program.
func LoadWorld(repo string, overlay map[string][]byte) (*World, error) {
	pkgs, err := loadPkgs(repo, overlay)
	if err != nil {
		return nil, err
	}
	return buildWorld(repo, pkgs)
}

// loadPkgs loads and type-checks every package of the module (and its dependencies) from source.
func loadPkgs(repo string, overlay map[string][]byte) ([]*packages.Package, error) {
	cfg := &packages.Config{
		Mode:    packages.LoadAllSyntax,
		Dir:     repo,
		Tests:   false,
		Overlay: overlay,
		Env:     append(os.Environ(), "GOWORK=off"),
	}
	pkgs, err := packages.Load(cfg, "./...")
	if err != nil {
		return nil, fmt.Errorf("packages.Load: %v", err)
	}
	if len(pkgs) == 0 {
		return nil, fmt.Errorf("no packages loaded from %s", repo)
	}
	nerr := 0
	var first string
	packages.Visit(pkgs, nil, func(p *packages.Package) {
		for _, e := range p.Errors {
			if nerr == 0 {
				first = e.Error()
			}
			nerr++
		}
	})
	if nerr > 0 {
		return nil, fmt.Errorf("%d load/type errors, first: %s", nerr, first)
	}
	return pkgs, nil
}

func buildWorld(repo string, pkgs []*packages.Package) (*World, error) {
	prog, _ := ssautil.AllPackages(pkgs, ssa.InstantiateGenerics)
	prog.Build()
	// NORM gives the locals of an inlined helper a suffix (__i3, __mv, __f2) that cannot clash with the caller's
	// names; the suffix is taken off the names SSA records for locals, so that the few rules and all messages
	// that mention a local by name see the name the source had
	for fn := range ssautil.AllFunctions(prog) {
		for _, b := range fn.Blocks {
			for _, in := range b.Instrs {
				switch x := in.(type) {
				case *ssa.Alloc:
					x.Comment = normSuffix.ReplaceAllString(x.Comment, "")
				case *ssa.Phi:
					x.Comment = normSuffix.ReplaceAllString(x.Comment, "")
				}
			}
		}
	}
	w := &World{Repo: repo, Pkgs: pkgs, Prog: prog, Fset: prog.Fset,
		ByPath: map[string]*packages.Package{}, SSAPkgs: map[string]*ssa.Package{}, Dead: map[string]bool{}}
	for _, p := range pkgs {
		w.ByPath[p.PkgPath] = p
	}
	for _, sp := range prog.AllPackages() {
		w.SSAPkgs[sp.Pkg.Path()] = sp
	}
	if len(w.ByPath) < 30 {
		return nil, fmt.Errorf("only %d module packages loaded, expected >= 30", len(w.ByPath))
	}
	return w, nil
}

func pkgPath(rel string) string {
	if rel == "" || rel == "." {
		return Mod
	}
	return Mod + "/" + rel
}

// Pkg returns the SSA package at a module-relative path ("" is the root package).
func (w *World) Pkg(rel string) *ssa.Package { return w.SSAPkgs[pkgPath(rel)] }

// IsModule reports whether fn belongs to the analysed module.
func IsModule(fn *ssa.Function) bool {
	if fn == nil {
		return false
	}
	p := fn.Package()
	if p == nil {
		if fn.Origin() != nil {
			p = fn.Origin().Package()
		}
		if p == nil && fn.Parent() != nil {
			return IsModule(fn.Parent())
		}
	}
	if p == nil || p.Pkg == nil {
		// synthetic wrappers and instantiations: decide by object
		if o := fn.Object(); o != nil && o.Pkg() != nil {
			return isModPath(o.Pkg().Path())
		}
		return false
	}
	return isModPath(p.Pkg.Path())
}

func isModPath(p string) bool { return p == Mod || strings.HasPrefix(p, Mod+"/") }

// Func resolves a function or method by package-relative path and name.
// name is "F", "T.M" or "(*T).M".  Returns nil when it does not resolve.
func (w *World) Func(rel, name string) *ssa.Function {
	if f := w.funcExact(rel, name); f != nil {
		return f
	}
	// Fallback: the anchor was moved to another receiver (or turned from a method into a function
	// or back).  If exactly one declared function or method of the package carries the name, it is
	// the anchor.
	p := w.Pkg(rel)
	if p == nil {
		return nil
	}
	mn := name
	if i := strings.LastIndex(mn, "."); i >= 0 {
		mn = mn[i+1:]
	}
	var found []*ssa.Function
	for _, fn := range w.ModuleFuncs() {
		if fn.Parent() != nil || fn.Pkg != p || fn.Name() != mn || fn.Synthetic != "" {
			continue
		}
		found = append(found, fn)
	}
	if len(found) == 1 {
		return found[0]
	}
	// Fallback: the anchor was renamed (see renamedAnchors in norm.go)
	for newFull, oldFull := range renamedAnchors {
		k := shortKey(oldFull)
		if i := strings.Index(k, "#"); i < 0 || k[:i] != p.Pkg.Path() || k[i+1:] != mn {
			continue
		}
		nk := shortKey(newFull)
		nn := nk[strings.Index(nk, "#")+1:]
		var got []*ssa.Function
		for _, fn := range w.ModuleFuncs() {
			if fn.Parent() == nil && fn.Pkg == p && fn.Name() == nn && fn.Synthetic == "" {
				if obj, ok := fn.Object().(*types.Func); ok && obj.FullName() == newFull {
					got = append(got, fn)
				}
			}
		}
		if len(got) == 1 {
			return got[0]
		}
	}
	return nil
}

func (w *World) funcExact(rel, name string) *ssa.Function {
	p := w.Pkg(rel)
	if p == nil {
		return nil
	}
	if !strings.Contains(name, ".") {
		return p.Func(name)
	}
	ptr := false
	n := name
	if strings.HasPrefix(n, "(*") {
		ptr = true
		n = strings.TrimPrefix(n, "(*")
		n = strings.Replace(n, ")", "", 1)
	}
	i := strings.Index(n, ".")
	tn, mn := n[:i], n[i+1:]
	t := p.Type(tn)
	if t == nil {
		return nil
	}
	var recv types.Type = t.Type()
	if ptr {
		recv = types.NewPointer(recv)
	}
	sel := w.Prog.MethodSets.MethodSet(recv).Lookup(p.Pkg, mn)
	if sel == nil {
		// unexported lookup needs the package; exported may pass nil
		sel = w.Prog.MethodSets.MethodSet(recv).Lookup(nil, mn)
	}
	if sel == nil {
		return nil
	}
	return w.Prog.MethodValue(sel)
}

// Named returns the named type rel.name.
func (w *World) Named(rel, name string) *types.Named {
	p := w.Pkg(rel)
	if p == nil {
		return nil
	}
	t := p.Type(name)
	if t == nil {
		return nil
	}
	n, _ := t.Type().(*types.Named)
	return n
}

// WithAnon returns fn and all functions nested in it (closures), depth first.
func WithAnon(fn *ssa.Function) []*ssa.Function {
	if fn == nil {
		return nil
	}
	out := []*ssa.Function{fn}
	for _, a := range fn.AnonFuncs {
		out = append(out, WithAnon(a)...)
	}
	return out
}

// ModuleFuncs returns every source function (incl. closures, methods) of the module's
// non-test packages, sorted by position for stable output.
func (w *World) ModuleFuncs() []*ssa.Function {
	if w.allFuncs == nil {
		w.allFuncs = ssautil.AllFunctions(w.Prog)
	}
	var out []*ssa.Function
	for fn := range w.allFuncs {
		if fn.Blocks == nil || fn.Synthetic != "" && fn.Parent() == nil && fn.Origin() == nil {
			continue
		}
		if IsModule(fn) && !w.isDead(fn) {
			out = append(out, fn)
		}
	}
	sort.Slice(out, func(i, j int) bool {
		if out[i].Pos() != out[j].Pos() {
			return out[i].Pos() < out[j].Pos()
		}
		return out[i].String() < out[j].String()
	})
	return out
}

// CHA returns the class-hierarchy call graph (built once).
func (w *World) CHA() *callgraph.Graph {
	if w.cgCHA == nil {
		w.cgCHA = cha.CallGraph(w.Prog)
	}
	return w.cgCHA
}

// VTA returns the variable-type-analysis call graph seeded with CHA (built once).
func (w *World) VTA() *callgraph.Graph {
	if w.cgVTA == nil {
		if w.allFuncs == nil {
			w.allFuncs = ssautil.AllFunctions(w.Prog)
		}
		w.cgVTA = vta.CallGraph(w.allFuncs, w.CHA())
	}
	return w.cgVTA
}

// Pos renders a position relative to the repository root.
func (w *World) Pos(p token.Pos) string {
	if !p.IsValid() {
		return "-"
	}
	pos := w.Fset.Position(p)
	f := strings.TrimPrefix(pos.Filename, w.Repo+"/")
	return fmt.Sprintf("%s:%d", f, pos.Line)
}

// FuncName gives a short stable name for a function: pkgrel.(*T).M or pkgrel.F$1.
func FuncName(fn *ssa.Function) string {
	if fn == nil {
		return "<nil>"
	}
	s := fn.String()
	s = strings.ReplaceAll(s, Mod+"/", "")
	s = strings.ReplaceAll(s, Mod+".", "gostatsd.")
	s = strings.ReplaceAll(s, Mod, "gostatsd")
	return s
}

// fnPkgPath returns the import path of the package a function belongs to ("" if unknown).
func fnPkgPath(fn *ssa.Function) string {
	for f := fn; f != nil; f = f.Parent() {
		if p := f.Package(); p != nil && p.Pkg != nil {
			return p.Pkg.Path()
		}
		if o := f.Origin(); o != nil && o.Package() != nil && o.Package().Pkg != nil {
			return o.Package().Pkg.Path()
		}
		if o := f.Object(); o != nil && o.Pkg() != nil {
			return o.Pkg().Path()
		}
	}
	return ""
}

// isDead: fn is (a closure of) a helper that the normalisation pass inlined at every use.
func (w *World) isDead(fn *ssa.Function) bool {
	if len(w.Dead) == 0 {
		return false
	}
	for f := fn; f != nil; f = f.Parent() {
		if obj, ok := f.Object().(*types.Func); ok && w.Dead[obj.FullName()] {
			return true
		}
	}
	return false
}

var baselineCallersCache map[string][]string

// dissolvedInto: a declared function named mn of package p existed on the pinned tree, no longer exists (under
// any receiver), had exactly one calling function there, and that function still exists: returns it.
func (w *World) dissolvedInto(p *ssa.Package, mn string) *ssa.Function {
	if baselineCallersCache == nil {
		baselineCallersCache = baselineCallers()
	}
	var callers []string
	nCallee := 0
	for callee, cs := range baselineCallersCache {
		k := shortKey(callee)
		i := strings.Index(k, "#")
		if i < 0 || k[:i] != p.Pkg.Path() || k[i+1:] != mn {
			continue
		}
		nCallee++
		callers = cs
	}
	if nCallee != 1 || len(callers) != 1 {
		return nil
	}
	return w.hostNamed(p, mn, callers[0], 0)
}

// hostNamed: the declared function with the given full name, or - when that one was dissolved as well - its own host.
func (w *World) hostNamed(p *ssa.Package, mn, full string, depth int) *ssa.Function {
	callers := []string{full}
	for _, fn := range w.ModuleFuncs() {
		if fn.Parent() != nil || fn.Synthetic != "" {
			continue
		}
		if obj, ok := fn.Object().(*types.Func); ok && obj.FullName() == callers[0] {
			if w.Dissolved == nil {
				w.Dissolved = map[string]string{}
			}
			w.Dissolved[p.Pkg.Path()+"."+mn] = callers[0]
			return fn
		}
	}
	// the only user is gone too: where did it go?
	if depth < 3 {
		if cs := baselineCallersCache[full]; len(cs) == 1 {
			return w.hostNamed(p, mn, cs[0], depth+1)
		}
	}
	return nil
}

var normSuffix = regexp.MustCompile(`__(i|mv|f)[0-9]*$`)

// FuncOrHost is Func with one more fallback, for rules that can do their work on the caller: the anchor was
// dissolved into the only function that referred to it on the pinned tree (inlined and deleted).  The code
// the rule looks for now stands in that function; the rule is applied there (and fails as before if it does
// not find it).  host reports whether the fallback was taken.
func (w *World) FuncOrHost(rel, name string) (fn *ssa.Function, host bool) {
	if f := w.Func(rel, name); f != nil {
		return f, false
	}
	p := w.Pkg(rel)
	if p == nil {
		return nil, false
	}
	mn := name
	if i := strings.LastIndex(mn, "."); i >= 0 {
		mn = mn[i+1:]
	}
	if g := w.dissolvedInto(p, mn); g != nil {
		return g, true
	}
	return nil, false
}
