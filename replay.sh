#!/bin/bash
# usage: replay.sh <report.json>  - re-runs the property named in a violation report on /repo's current tree
cd "$(dirname "$0")"
export PATH=/opt/veriftools/go1.26.8/bin:$PATH GOTOOLCHAIN=local GOFLAGS=-mod=mod GOPROXY=off GOSUMDB=off
unset GOWORK
[ -x bin/gsdcheck ] || ./setup.sh >/dev/null 2>&1
exec ./bin/gsdcheck -replay "$1"
