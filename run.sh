#!/bin/bash
# usage: run.sh <property-id> <quick|thorough>
# Rebuilds nothing but the analysis: gsdcheck re-loads /repo's working tree on every call.
cd "$(dirname "$0")"
export PATH=/opt/veriftools/go1.26.8/bin:$PATH GOTOOLCHAIN=local GOFLAGS=-mod=mod GOPROXY=off GOSUMDB=off
unset GOWORK
if [ ! -x bin/gsdcheck ]; then ./setup.sh >/dev/null 2>&1 || { echo "setup failed"; exit 2; }; fi
exec ./bin/gsdcheck -property "$1" -tier "${2:-quick}"
