#!/bin/bash
set -e
cd "$(dirname "$0")"
export PATH=/opt/veriftools/go1.26.8/bin:$PATH GOTOOLCHAIN=local GOFLAGS=-mod=mod GOPROXY=off GOSUMDB=off
unset GOWORK
mkdir -p bin evidence reports
(cd checker && go build -o ../bin/gsdcheck .)
echo "built bin/gsdcheck"
