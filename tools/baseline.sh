#!/bin/bash
# Runs /repo's own test suite (guard OFF: no build tags) and checks every test in
# BASELINE.json's stable_pass list still passes.  Usage: baseline.sh [repo-dir]
REPO=${1:-/repo}
export GOFLAGS=-mod=mod GOPROXY=off
unset GOWORK
OUT=$(mktemp)
(cd "$REPO" && go test -json -vet=off -count=1 -timeout 25m ./... > "$OUT" 2>/dev/null)
python3 - "$OUT" <<'PY'
import json,sys
b=json.load(open('/root/.vp/BASELINE.json'))
passed=set();failed=set()
for line in open(sys.argv[1],errors='replace'):
    line=line.strip()
    if not line.startswith('{'): continue
    try: ev=json.loads(line)
    except Exception: continue
    a=ev.get('Action');t=ev.get('Test')
    if t is None or a not in('pass','fail'): continue
    (passed if a=='pass' else failed).add(ev.get('Package','')+'::'+t)
passed-=failed
missing=[t for t in b['stable_pass'] if t not in passed]
print('baseline: passed=%d failed=%d stable_missing=%d'%(len(passed),len(failed),len(missing)))
for m in missing[:20]: print('  MISSING',m)
sys.exit(1 if missing else 0)
PY
rc=$?
rm -f "$OUT"
exit $rc
