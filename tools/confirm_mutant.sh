#!/bin/bash
# usage: confirm_mutant.sh <dir with patch.diff, meta.json, demo file(s)>  -> prints CONFIRMED/REJECTED and writes confirm.json
D=$(readlink -f "$1"); NAME=$(basename $(dirname $D))-$(basename $D)
export GOFLAGS=-mod=mod GOPROXY=off; unset GOWORK
WT=/tmp/confirm.$NAME.$$
git -C /repo worktree add -q --detach $WT HEAD || exit 3
cleanup() { git -C /repo worktree remove --force $WT >/dev/null 2>&1; }
trap cleanup EXIT
cd $WT
DEMO_PATH=$(python3 -c "import json;print(json.load(open('$D/meta.json'))['demo_path'])")
DEMO_CMD=$(python3 -c "import json;print(json.load(open('$D/meta.json'))['demo_cmd'])")
DEMO_FILE=$(ls $D/*_test.go 2>/dev/null | head -1)
# 1. demo passes on the original
mkdir -p $(dirname $DEMO_PATH); cp $DEMO_FILE $DEMO_PATH
DEMO_CMD=$(echo "$DEMO_CMD" | sed -E 's#^cd [^&]*&& *##; s#GOFLAGS=[^ ]+ ##; s#GOPROXY=[^ ]+ ##')
orig_out=$(timeout 600 bash -c "$DEMO_CMD" 2>&1); orig_rc=$?
# 2. apply mutant: suite passes (without demo), demo fails
rm -f $DEMO_PATH
git apply $D/patch.diff || { echo "REJECTED $NAME patch does not apply"; exit 1; }
suite=$(/verif/tools/baseline.sh $WT 2>&1 | head -3); suite_rc=$?
echo "$suite" | grep -q "stable_missing=0" && suite_ok=1 || suite_ok=0
cp $DEMO_FILE $DEMO_PATH
mut_out=$(timeout 600 bash -c "$DEMO_CMD" 2>&1); mut_rc=$?
verdict=REJECTED
if [ $orig_rc -eq 0 ] && [ $suite_ok -eq 1 ] && [ $mut_rc -ne 0 ]; then verdict=CONFIRMED; fi
python3 - <<PY
import json
json.dump({"name":"$NAME","verdict":"$verdict","demo_on_original_rc":$orig_rc,"suite_with_mutant":"""$suite""","demo_on_mutant_rc":$mut_rc,"demo_cmd":"""$DEMO_CMD""","demo_on_mutant_tail":"""$(echo "$mut_out" | tail -5 | tr '"\\' "'/")"""},open("$D/confirm.json","w"),indent=1)
PY
echo "$verdict $NAME orig_rc=$orig_rc suite_ok=$suite_ok mut_rc=$mut_rc"
