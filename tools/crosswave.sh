#!/bin/bash
# usage: crosswave.sh [-j N] [out]  -- every behaviour-preserving refactoring against ALL twenty checks
# (a maintainer's change is seen by every check, not only by the one of the property it was written around).
cd "$(dirname "$0")/.."
J=6
if [ "$1" = "-j" ]; then J=$2; shift 2; fi
OUT=${1:-/tmp/crosswave.out}
worker() {
  name=$1; patch=$2
  res=$(MUT_LINES=400 tools/mutant.sh $patch all 2>&1)
  if echo "$res" | grep -q "^exit=0"; then echo "X $name quiet"; else
    props=$(echo "$res" | grep -o "^VIOLATION property=C[0-9]*" | sed 's/VIOLATION property=//' | sort -u | tr '\n' ' ')
    echo "X $name ALARM in: $props| $(echo "$res" | grep "FAIL rule=" | head -4 | cut -c1-170 | tr '\n' ';')"
  fi
}
export -f worker
: > $OUT
for w in ${WAVES:-refactors/wave*/}; do for pd in $w/C*/R*/; do [ -f $pd/patch.diff ] && echo "$(basename $w)/$(basename $(dirname $pd))-$(basename $pd) $pd/patch.diff"; done; done | xargs -P $J -L 1 bash -c 'worker "$@"' _ >> $OUT
echo "refactorings against all checks: $(grep -c ' quiet' $OUT) quiet, $(grep -c ' ALARM' $OUT) with an alarm"
