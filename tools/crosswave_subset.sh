#!/bin/bash
# usage: crosswave_subset.sh <C05,C19,...> <out>  -- every stored refactoring against a subset of the checks (targeted re-verification after a rule change in those properties)
cd "$(dirname "$0")/.."
PROPS=$1; OUT=$2
worker() { name=$1; patch=$2; res=$(MUT_LINES=400 tools/mutant.sh $patch $PROPS 2>&1); if echo "$res" | grep -q "^exit=0"; then echo "X $name quiet"; else props=$(echo "$res" | grep -o "^VIOLATION property=C[0-9]*" | sed 's/VIOLATION property=//' | sort -u | tr '\n' ' '); echo "X $name ALARM in: $props| $(echo "$res" | grep "FAIL rule=" | head -3 | cut -c1-170 | tr '\n' ';')"; fi; }
export -f worker; export PROPS
: > $OUT
for w in refactors/wave*/; do for pd in $w/C*/R*/; do [ -f $pd/patch.diff ] && echo "$(basename $w)/$(basename $(dirname $pd))-$(basename $pd) $pd/patch.diff"; done; done | xargs -P 10 -L 1 bash -c 'worker "$@"' _ >> $OUT
echo "subset $PROPS: $(grep -c ' quiet' $OUT) quiet, $(grep -c ' ALARM' $OUT) with an alarm"
