#!/bin/bash
# Runs every claimed check N times on the unchanged tree and compares the obligation lists.
cd "$(dirname "$0")/.."
N=${1:-3}
export PATH=/opt/veriftools/go1.26.8/bin:$PATH GOTOOLCHAIN=local GOFLAGS=-mod=mod GOPROXY=off GOSUMDB=off; unset GOWORK
D=$(mktemp -d /tmp/gsddet.XXXX); mkdir -p $D/verif; cp known_findings.json $D/verif/
bad=0
for i in $(seq 1 $N); do
  ./bin/gsdcheck -verif $D/verif -property all -v 2>&1 | grep "^  obl" | sed 's/ *$//' | sort > $D/run$i.txt
done
for i in $(seq 2 $N); do
  if ! diff -q $D/run1.txt $D/run$i.txt >/dev/null; then echo "NONDETERMINISTIC: run 1 vs run $i"; diff $D/run1.txt $D/run$i.txt | head -10; bad=1; fi
done
echo "runs=$N obligations=$(wc -l < $D/run1.txt) failing=$(grep -c 'ok=false' $D/run1.txt) deterministic=$((1-bad))"
rm -rf $D
exit $bad
