#!/usr/bin/env python3
"""Regenerates /verif/MANIFEST.json from the table below.  A property is claimed only once its
rules exist, pass on the tree and have killed at least one seeded change."""
import json, os

V = os.path.dirname(os.path.dirname(os.path.abspath(__file__)))
props = [json.loads(l) for l in open(os.path.join(V, 'properties.jsonl'))]

# id -> (technique, level text, level note)
claimed = {
 'C01': ("call-graph ownership (who-may-call) + CFG typestate automaton (Flush->Process->Reset) + field-origin analysis of Reset + table extraction, over go/ssa",
         "Structural necessary conditions decided on every path of the named functions: the aggregator is driven only by its shard worker; one process command does Flush, Process, Reset in order, each once; Reset carries identity and no data; backends do not keep the map asynchronously; receive formulas; routing partition; four-type exhaustiveness; Flush leaves the received data to Reset; the parser dispatches every batch it folded metrics into. The interleaving behaviour itself is not decided.",
         "Go channel/select semantics; go/types + go/ssa; rules in checker/c01.go; a passing check means no listed structural clause is broken, not that conservation holds."),
 'C02': ("exhaustive byte decision tables (abstract evaluation of each comparison tree over all 256 byte values) + guard dominance + state-transition relation extraction + per-line reinitialisation table",
         "The lexer's dispatch tables (name normalisation, type, attribute introducers, event keys, priority/alert words) equal the documented grammar for every byte value; name/value/rate stores are dominated by their well-formedness guards (non-empty name, ParseFloat ok, not NaN, rate > 0 and finite); tags are non-empty and delimiter-free by construction; accept exits and the transition relation are the documented chain; Run re-initialises every per-line field.",
         "does not decide acceptance of exactly the grammar on all strings (offset arithmetic); documented tables are frozen in checker/c02.go; anchors by state-function name."),
 'C03': ("panic-obligation enumeration over the ingestion call-graph scope + abstract interpretation with a relational numeric domain queried at obligation points: wrap-aware linearisation of SSA definitions, dominating branch facts, length facts, memory versioning, Houdini loop invariants, join case-splitting, library models and named lemmas, decided by Fourier-Motzkin refutation; plus HTTP status path counting",
         "Every index / slice / make / unchecked assertion / integer division / nested-map write / explicit abort reachable from the receiver, parser (lexer states, synchronous handler chain) and the two HTTP handlers is discharged or the check fails; header lengths are compared after widening; each request path writes exactly one status; a library result that comes with an error is used only after the error test; every Set built on an ingestion path has a member map; a slot taken on a channel in the HTTP receiver is returned on every path; only the two attribute states end a line without an error (so the parser never sees a line with neither metric nor event). Assumptions (lexer object invariant with its witnesses, line <= 65535 bytes, library contracts, configuration >= 1) are listed in the evidence.",
         "nil dereferences other than the two enumerated kinds (library results before their error test, unpopulated pointer batches), closed-channel sends, memory exhaustion and liveness are not covered; third-party code trusted; the lexer invariant is assumed at entries/loop heads/after helper calls (Stage A) with establishment and preservation witnesses."),
 'C04': ("the same obligation engine (linear facts + Fourier-Motzkin + Houdini invariants + preconditions checked at call sites) over the flush scope: aggregator Flush/Process/Reset, histogram helpers, flusher, all nine backends' SendMetricsAsync and everything they call in the module",
         "All 120+ panic obligations of the flush path are discharged for every configuration in the quantifier (|p| <= 100 as lemma L1, histogram limit >= 0, persisted idle series via 'len >= 0 unless guarded'); preconditions such as 'bucket map non-empty' are proved at every call site.",
         "third-party encoders trusted; nil dereferences not enumerated; numerical results not decided; lemma L11 (+Inf bucket present and last) is a stated data-structure lemma."),
 'C05': ("type-reachability (no []byte/unsafe reachable from outputs) + ordering/dominance on the parser loop + value provenance of the tag buffer + constructor copy rule",
         "The no-aliasing clause is decided for every input by types (no reachable type can hold a byte buffer, no unsafe); tag buffers never alias earlier lines' tags; New* constructors copy tags; the datagram buffer is released after parsing; one parse per line with bad-line accounting; timestamps/sources/host-tag handling; equal-timestamp gauge lines resolve to the later line; no line is parsed after the last newline of a datagram.",
         "'datagram = concatenation of its lines' as an equation is not decided; go/types."),
 'C14': ("table extraction from composite literals and switches on both sides + inverse/bijection comparison + protobuf struct-tag coverage + guard dominance in the HTTP handlers + pooled-buffer escape rule",
         "Encoder and decoder field tables are mutual inverses for the four metric types and events; every protobuf field is written and read; priority/alert switches are inverse bijections on all declared constants; each compressor's Content-Encoding selects the matching decompressor; dispatch is dominated by successful read/decompress/unmarshal and every handler path writes exactly one status; no request body aliases a pooled buffer; the request body is read to its end; encoded series own their slices and the series of one name share that name's entry.",
         "protobuf, zlib and lz4 round-trip behaviour is trusted."),
 'C15': ("acquire/release pairing and exactly-once counting on CFGs + per-iteration event counting in the per-split loop + guard classification of the retry-loop counters + slot take/put linearity + pooled-buffer escape rule",
         "Semaphores are balanced around the merging and posting goroutines; each split element yields exactly one request (or one notification) carrying that element's map and header tags; sent/dropped/retried/invalid are counted once on the right edge and success/give-up leave the loop; each attempt gets a fresh body reader; consolidator slots are put back exactly once and a flush hands over drained maps and refills with fresh ones; SplitByTags is a partition. The UTF-8 serialisability clause fails and is listed as a known finding.",
         "conservation under concurrency as a history property is not decided; HTTP client behaviour trusted."),
 'C16': ("linear (exactly-once) use analysis of the completion callback across closures, goroutines and channel moves + typestate of the sender's held stream + WaitGroup balance + semaphore pairing",
         "For each of the 9 Backend implementations the callback is consumed exactly once on every control path; the socket sender drops a stream right after completing it and completes held/queued streams at shutdown; the flusher adds len(backends) and each callback does exactly one Done; HTTP collectors pass every result and the cancellation error to the callback; request slots are released on every path; a stream is handed to the shared sender in a cancellable select and keeps the errors recorded for it across reconnects.",
         "timing and 'the right error' are not decided; sender.Run's nil-channel select idiom is decided since defects D9 / D10 (held stream not overwritten, stale cancellation channel cleared)."),
 'C20': ("typestate automaton over the heartbeat loop + per-split notification counting + wiring/value-identity checks across manager, telemetry server, coordinator and forwarder",
         "No path of the heartbeat reaches GET /next without a WaitForFlush since the last request, after an initial Flush; the forwarder posts before notifying with exactly one notification per request; WaitForFlush is a plain blocking receive; runtimeDone records trigger the coordinator's Flush; one coordinator instance is shared; manual mode disables timer flushing; start-up failure reaches init-error.",
         "HTTP completion on the wire and AWS's delivery of runtimeDone are outside the code."),
 'C08': ("table extraction of the percentile sub-metric emissions (name, mask flag, value) + dominance of the histogram-tag test over statistics/histogram stores + linear-form (n, k) agreement of percentile index expressions + dataflow shape of the rate formulas",
         "Only the non-numeric clauses: every percentile sub-metric sits under its own flag with its own value and prefix; histogram-tagged timers get a histogram and no statistics exactly under hasHistogramTag; histogram structure (<=, +Inf total, limit 0, truncation, unparsable skipped); the number of values summed equals the rank; count and rates derive from the sampled count and the interval.",
         "no numerical result (sums, means, medians, deviations, bucket counts) is computed or decided; float arithmetic is out of reach."),
 'C10': ("return-expression case analysis of the matcher + gate/edge dominance in the filter loop + provenance of the scratch set + C07 merge rules restricted to the tag stage",
         "Match results are (match) != invert for exact/prefix/regex and '!', 'regex:', '*' are parsed as documented; drop-metric / drop-tags / drop-host act only after the three gates of the same filter, failing gates skip the filter; every kept metric gets the unique union with the static tags from a fresh scratch set; the stage forwards the rebuilt map only, iff non-empty, and merges colliding series by the C07 rules.",
         "regexp semantics trusted; the filter relation as a whole is not computed."),
 'C11': ("goroutine-ownership closure over the call graph + exactly-once merge counting per closure + post-dominance of the release tests + control-equivalence of gauge updates with map inserts/deletes",
         "Parked state is touched only on the Run goroutine; each datapoint is merged into exactly one of forward-now (re-keyed) / park (original key); a lookup result releases metrics and events independently through one goroutine each that forwards once; lookups only when nothing is parked for the source; queue gauges move with the map entries; instance data applied whenever an instance was found.",
         "exactly-once over interleavings relies on Go channel semantics; not decided as a history property."),
 'C12': ("abstract interpretation over the nil-ness domain with a six-case split (old entry x new result) for the gauge deltas + loop-shape and value-identity checks of the dispatcher + lock typestate automaton",
         "Every source of a batch is answered (loop shape), sources are kept until the lookup, the limiter is charged once per call; the entry is always stored, keeps the old instance on a nil result and every answer is passed on; positive/negative gauges change by exactly class(new) - class(old) in all six cases and by -1 of the right gauge per idle eviction; cache writes under the write lock on the Run goroutine, foreign reads under the read lock; idle is tested before TTL; every collected idle source is evicted; the provider's result map is only read while answering.",
         "clock-dependent behaviour over histories is not decided; provider behaviour trusted."),
 'C13': ("wiring/value-identity checks on the informer + type-assertion check against the concrete tombstone type found in client-go's own SSA + predicate/key sibling agreement + guarded-return case analysis of the tag-name function + lock automaton",
         "Handler and PodByIP indexer sit on the informer that lookups query; updates invalidate with the old object, deletes with the pod or the tombstone in the form client-go delivers; index and invalidation share predicate and key; memo writes/reads are locked and 'nothing' is never memoised; tag name = non-empty 'tag' group, else whole key, only for matching keys, every key being put to the regex; answers come only from the memo entry or the informer; id = namespace/name.",
         "informer event ordering (client-go) trusted; lookup/invalidation races not decided."),
 'C17': ("four-type traversal check + flag->field table extraction across seven backends (if-form and literal-table form) + batch open/close path counting + fresh-storage provenance after hand-over + limit-guard shape + writer/lexer table agreement",
         "All builders traverse the four types; each disabled-subtype flag guards exactly its timer field in every backend; batches are closed on all exits and a handed-over batch is never written again; CloudWatch calls carry at most 20 data and advance; the relay tests the packet size before every write; relay suffixes, tag introducer, event header lengths (of exactly the strings written) and newline escaping agree with the lexer; JSON encoders are not configured for lossy floats; graphite separates a tag at its first ':' only.",
         "payload syntax and number formatting are not decided."),
 'C18': ("canonicalisation of time expressions (root + multiset of durations, helpers inlined) and comparison with the required forms + name wiring + phi structure of the flusher loop",
         "Every tick value is Truncate(t - offset, interval) + offset (so tick - offset is a multiple of interval and not in the future); the initial wait is Truncate(now - offset, interval) + interval + offset - now, hence in (0, interval]; interval/offset/aligned are wired unchanged; the flusher reports thisFlush - lastFlush and advances.",
         "monotonicity and positive-multiple elapsed time under arbitrary clock behaviour are not decided; Truncate semantics per the standard library."),
 'C19': ("exactly-once forward counting per stage + WaitGroup/semaphore pairing with defers + ordering automaton on the parked-event release + interface-driven wait-chain check + stage-order dataflow in the server wiring",
         "Each stage forwards an event once; the backend stage adds len(backends), starts one goroutine per backend on an acquired slot, compensates on cancellation, and Done/slot release are deferred before the send; parked events keep their count until handed on; each WaitForEvents waits its own group then the next stage; static and cloud tags precede forwarding; order parser -> cloud -> tags -> sink; field tables re-checked from C02/C14; the parser sets the sender address as source of every event.",
         "end-to-end delivery under concurrency is not decided as a history property."),
 'C06': ("purity (effect) analysis of Bucket + per-closure exactly-once store counting on the CFG + value-identity of the dispatch index in SSA",
         "Bucket reads only its arguments and calls only adler32.Checksum; each Split/SplitByTags closure stores the element exactly once on every path under unchanged keys into the same-typed field of maps[Bucket(name,key,count)]; split i is sent to worker i and both are sized by one number; the worker table is read-only after construction and the dispatch loop visits every split. For every batch and shard count by construction of the code shape.",
         "go/ssa; adler32 determinism; the rule recognises the if/else insert idiom used today and fails closed on other shapes."),
 'C07': ("role-based discovery of merge sites (comma-ok lookup in map[string]T) + operator/guard classification on SSA with dominator facts and post-dominance",
         "Every merge site combines only with +, append, set insert, timestamp max or a newer-wins timestamp comparison, on every path of the found branch; not-found branches store the operand unchanged and agree with each other; every MetricMap traversal covers all four types.",
         "float addition is treated as associative (rounding not decided); go/ssa."),
 'C09': ("name-stem wiring table (configuration -> constructor -> Reset) + case analysis of isExpired's return expression + guarded-call (who-may-delete) analysis + sibling cross-check of the four collection types",
         "Each metric type is wired to its own expiry interval end to end; isExpired is interval != 0 && now-ts > interval (strict); deletion happens only in Reset on the expired edge; Reset keeps Timestamp and leaves gauges alone; merges only raise timestamps; the four AggregatedMetrics implementations agree.",
         "history behaviour follows from these clauses by the argument in DESIGN.md; clocks are not modelled."),
}

na_reason = {}
default_na = "not built yet (checker under construction); see DESIGN.md section 5 for the planned rules"

checks = []
for p in props:
    i = p['id']
    if i in claimed:
        tech, text, note = claimed[i]
        checks.append({
            "property_id": i,
            "quick_cmd": "./run.sh %s quick" % i,
            "thorough_cmd": "./run.sh %s thorough" % i,
            "evidence_file": "evidence/%s.json" % i,
            "replay_cmd_template": "./replay.sh {path}",
            "engine": "gsdcheck",
            "level_claimed": {"category": "other", "text": text, "design_ref": "DESIGN.md section 5 " + i},
            "level_note": note,
            "technique": "static analysis: " + tech,
        })
m = {
 "version": 1,
 "setup_cmd": "./setup.sh",
 "hooks": {"guard": "verif", "enable": "none: static analysis reads the source; no instrumentation is compiled into /repo",
           "baseline_off_cmd": "/verif/tools/baseline.sh", "source_commits": [], "add_only": True},
 "engines": [{"name": "gsdcheck", "path": "checker/", "serves_properties": sorted(claimed),
              "kind_free_text": "repository-specific static analyser over go/packages + go/ssa (dominators, post-dominators, control dependence, call graph, table extraction, bounds obligations)"}],
 "checks": checks,
 "notes": "All claims are structural necessary conditions decided from source (level other). See DESIGN.md. Fix commits in /repo: see known_findings.json 'fixed'.",
 "not_applicable": [{"property_id": p['id'], "reason": na_reason.get(p['id'], default_na)} for p in props if p['id'] not in claimed],
}
json.dump(m, open(os.path.join(V, 'MANIFEST.json'), 'w'), indent=1)
print("claimed:", sorted(claimed), "not_applicable:", len(m['not_applicable']))
