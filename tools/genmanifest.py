#!/usr/bin/env python3
"""Regenerates /verif/MANIFEST.json from the table below.  A property is claimed only once its
rules exist, pass on the tree and have killed at least one seeded change."""
import json, os

V = os.path.dirname(os.path.dirname(os.path.abspath(__file__)))
props = [json.loads(l) for l in open(os.path.join(V, 'properties.jsonl'))]

# id -> (technique, level text, level note)
claimed = {
 'C01': ("call-graph ownership (who-may-call) + CFG typestate automaton (Flush->Process->Reset) + field-origin analysis of Reset + table extraction, over go/ssa",
         "Structural necessary conditions decided on every path of the named functions: the aggregator is driven only by its shard worker; one process command does Flush, Process, Reset in order, each once; Reset carries identity and no data; backends do not keep the map asynchronously; receive formulas; routing partition; four-type exhaustiveness. The interleaving behaviour itself is not decided.",
         "Go channel/select semantics; go/types + go/ssa; rules in checker/c01.go; a passing check means no listed structural clause is broken, not that conservation holds."),
 'C02': ("exhaustive byte decision tables (abstract evaluation of each comparison tree over all 256 byte values) + guard dominance + state-transition relation extraction + per-line reinitialisation table",
         "The lexer's dispatch tables (name normalisation, type, attribute introducers, event keys, priority/alert words) equal the documented grammar for every byte value; name/value/rate stores are dominated by their well-formedness guards (non-empty name, ParseFloat ok, not NaN, rate > 0 and finite); tags are non-empty and delimiter-free by construction; accept exits and the transition relation are the documented chain; Run re-initialises every per-line field.",
         "does not decide acceptance of exactly the grammar on all strings (offset arithmetic); documented tables are frozen in checker/c02.go; anchors by state-function name."),
 'C05': ("type-reachability (no []byte/unsafe reachable from outputs) + ordering/dominance on the parser loop + value provenance of the tag buffer + constructor copy rule",
         "The no-aliasing clause is decided for every input by types (no reachable type can hold a byte buffer, no unsafe); tag buffers never alias earlier lines' tags; New* constructors copy tags; the datagram buffer is released after parsing; one parse per line with bad-line accounting; timestamps/sources/host-tag handling; equal-timestamp gauge lines resolve to the later line.",
         "'datagram = concatenation of its lines' as an equation is not decided; go/types."),
 'C14': ("table extraction from composite literals and switches on both sides + inverse/bijection comparison + protobuf struct-tag coverage + guard dominance in the HTTP handlers + pooled-buffer escape rule",
         "Encoder and decoder field tables are mutual inverses for the four metric types and events; every protobuf field is written and read; priority/alert switches are inverse bijections on all declared constants; each compressor's Content-Encoding selects the matching decompressor; dispatch is dominated by successful read/decompress/unmarshal and every handler path writes exactly one status; no request body aliases a pooled buffer.",
         "protobuf, zlib and lz4 round-trip behaviour is trusted."),
 'C15': ("acquire/release pairing and exactly-once counting on CFGs + per-iteration event counting in the per-split loop + guard classification of the retry-loop counters + slot take/put linearity + pooled-buffer escape rule",
         "Semaphores are balanced around the merging and posting goroutines; each split element yields exactly one request (or one notification) carrying that element's map and header tags; sent/dropped/retried/invalid are counted once on the right edge and success/give-up leave the loop; each attempt gets a fresh body reader; consolidator slots are put back exactly once and a flush hands over drained maps and refills with fresh ones; SplitByTags is a partition. The UTF-8 serialisability clause fails and is listed as a known finding.",
         "conservation under concurrency as a history property is not decided; HTTP client behaviour trusted."),
 'C16': ("linear (exactly-once) use analysis of the completion callback across closures, goroutines and channel moves + typestate of the sender's held stream + WaitGroup balance + semaphore pairing",
         "For each of the 9 Backend implementations the callback is consumed exactly once on every control path; the socket sender drops a stream right after completing it and completes held/queued streams at shutdown; the flusher adds len(backends) and each callback does exactly one Done; HTTP collectors pass every result and the cancellation error to the callback; request slots are released on every path.",
         "timing and 'the right error' are not decided; the nil-channel select idiom in sender.Run is trusted."),
 'C20': ("typestate automaton over the heartbeat loop + per-split notification counting + wiring/value-identity checks across manager, telemetry server, coordinator and forwarder",
         "No path of the heartbeat reaches GET /next without a WaitForFlush since the last request, after an initial Flush; the forwarder posts before notifying with exactly one notification per request; WaitForFlush is a plain blocking receive; runtimeDone records trigger the coordinator's Flush; one coordinator instance is shared; manual mode disables timer flushing; start-up failure reaches init-error.",
         "HTTP completion on the wire and AWS's delivery of runtimeDone are outside the code."),
 'C06': ("purity (effect) analysis of Bucket + per-closure exactly-once store counting on the CFG + value-identity of the dispatch index in SSA",
         "Bucket reads only its arguments and calls only adler32.Checksum; each Split/SplitByTags closure stores the element exactly once on every path under unchanged keys into the same-typed field of maps[Bucket(name,key,count)]; split i is sent to worker i and both are sized by one number. For every batch and shard count by construction of the code shape.",
         "go/ssa; adler32 determinism; the rule recognises the if/else insert idiom used today and fails closed on other shapes."),
 'C07': ("role-based discovery of merge sites (comma-ok lookup in map[string]T) + operator/guard classification on SSA with dominator facts and post-dominance",
         "Every merge site combines only with +, append, set insert, timestamp max or a newer-wins timestamp comparison, on every path of the found branch; not-found branches store the operand unchanged and agree with each other; every MetricMap traversal covers all four types.",
         "float addition is treated as associative (rounding not decided); go/ssa."),
 'C09': ("name-stem wiring table (configuration -> constructor -> Reset) + case analysis of isExpired's return expression + guarded-call (who-may-delete) analysis + sibling cross-check of the four collection types",
         "Each metric type is wired to its own expiry interval end to end; isExpired is interval != 0 && now-ts > interval (strict); deletion happens only in Reset on the expired edge; Reset keeps Timestamp and leaves gauges alone; merges only raise timestamps; the four AggregatedMetrics implementations agree.",
         "history behaviour follows from these clauses by the argument in DESIGN.md; clocks are not modelled."),
}

na_reason = {}
default_na = "not built yet (checker under construction); see DESIGN.md section 5 for the planned rules"

checks = []
for p in props:
    i = p['id']
    if i in claimed:
        tech, text, note = claimed[i]
        checks.append({
            "property_id": i,
            "quick_cmd": "./run.sh %s quick" % i,
            "thorough_cmd": "./run.sh %s thorough" % i,
            "evidence_file": "evidence/%s.json" % i,
            "replay_cmd_template": "./bin/gsdcheck -replay {path}",
            "engine": "gsdcheck",
            "level_claimed": {"category": "other", "text": text, "design_ref": "DESIGN.md section 5 " + i},
            "level_note": note,
            "technique": "static analysis: " + tech,
        })
m = {
 "version": 1,
 "setup_cmd": "./setup.sh",
 "hooks": {"guard": "verif", "enable": "none: static analysis reads the source; no instrumentation is compiled into /repo",
           "baseline_off_cmd": "/verif/tools/baseline.sh", "source_commits": [], "add_only": True},
 "engines": [{"name": "gsdcheck", "path": "checker/", "serves_properties": sorted(claimed),
              "kind_free_text": "repository-specific static analyser over go/packages + go/ssa (dominators, post-dominators, control dependence, call graph, table extraction, bounds obligations)"}],
 "checks": checks,
 "notes": "All claims are structural necessary conditions decided from source (level other). See DESIGN.md. Fix commits in /repo: see known_findings.json 'fixed'.",
 "not_applicable": [{"property_id": p['id'], "reason": na_reason.get(p['id'], default_na)} for p in props if p['id'] not in claimed],
}
json.dump(m, open(os.path.join(V, 'MANIFEST.json'), 'w'), indent=1)
print("claimed:", sorted(claimed), "not_applicable:", len(m['not_applicable']))
