#!/bin/bash
# usage: mutant.sh <patch.diff> <property[,property...]> [tier]
# Applies the patch to a scratch copy of /repo (never to /repo), runs the checker on the copy
# with a scratch verif dir, prints the verdict, removes the copy.
set -u
PATCH=$(readlink -f "$1"); PROPS=$2; TIER=${3:-quick}
export PATH=/opt/veriftools/go1.26.8/bin:$PATH GOTOOLCHAIN=local GOFLAGS=-mod=mod GOPROXY=off GOSUMDB=off
unset GOWORK
D=$(mktemp -d /tmp/gsdmut.XXXXXX)
mkdir -p "$D/repo" "$D/verif"
rsync -a --exclude .git /repo/ "$D/repo/"
cp /verif/known_findings.json "$D/verif/"
if ! (cd "$D/repo" && patch -p1 -s < "$PATCH"); then echo "PATCH-FAILED $PATCH"; rm -rf "$D"; exit 3; fi
${GSD:-/verif/bin/gsdcheck} -repo "$D/repo" -verif "$D/verif" -property "$PROPS" -tier "$TIER" > "$D/out.txt" 2>&1
rc=$?
grep -E "FAIL rule|VIOLATION|load failure|^normalise:" "$D/out.txt" | sed "s|$D/repo/||g" | head -${MUT_LINES:-12}
echo "exit=$rc"
rm -rf "$D"
exit $rc
