#!/bin/bash
# usage: refwave.sh <dir with Cxx/Ry/patch.diff> [props...]  -- runs each behaviour-preserving refactoring against
# the check of its property; any FAIL is a false alarm of the checker.
cd "$(dirname "$0")/.."
D=$1; shift
for pd in $(ls -d $D/C*/R*/ 2>/dev/null); do
  p=$(basename $(dirname $pd)); v=$(basename $pd)
  [ -n "$1" ] && ! echo "$@" | grep -qw $p && continue
  [ -f $pd/patch.diff ] || continue
  res=$(MUT_LINES=60 tools/mutant.sh $pd/patch.diff $p 2>&1)
  n=$(echo "$res" | grep -c "FAIL rule=")
  if echo "$res" | grep -q "^exit=0"; then echo "$p-$v quiet"; else echo "$p-$v ALARM ($n)"; echo "$res" | grep "FAIL rule=" | cut -c1-260 | sed 's/^/    /'; fi
done
