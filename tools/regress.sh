#!/bin/bash
# usage: regress.sh [-j N] [out-file]   -- parallel regression: every seeded change must be detected by its own
# property's check (lines "S ..."), every behaviour-preserving refactoring must stay quiet (lines "R ...").
# Uses ${GSD:-/verif/bin/gsdcheck}; never touches /repo.
cd "$(dirname "$0")/.."
J=6
if [ "$1" = "-j" ]; then J=$2; shift 2; fi
OUT=${1:-/tmp/regress.out}
declare -A PROP=( [revert-D1]=C03 [revert-D2]=C02 [revert-D3]=C04 [revert-D4]=C04 [revert-D5]=C04 [revert-D6]=C05 [revert-D7]=C11 [revert-D8]=C17 [revert-D9]=C16 [revert-D10]=C16 )
jobs=$(mktemp)
for d in seeded/*/; do
  d=${d%/}; [ -f $d/patch.diff ] || continue
  name=$(basename $d)
  if [ -n "${PROP[$name]:-}" ]; then prop=${PROP[$name]}; else prop=${name%%-*}; fi
  case "$prop" in W[0-9]) t=${name#W?-}; prop=${t%%-*};; esac
  echo "S $name $d/patch.diff $prop" >> $jobs
done
for w in refactors/wave*/; do
  [ "${ONLY:-}" = S ] && break   # ONLY=S: seeded changes only (the refactorings are covered by crosswave.sh)
  for pd in $w/C*/R*/; do
    [ -f $pd/patch.diff ] || continue
    p=$(basename $(dirname $pd)); v=$(basename $pd)
    echo "R $(basename $w)/$p-$v $pd/patch.diff $p" >> $jobs
  done
done
worker() {
  kind=$1; name=$2; patch=$3; prop=$4
  res=$(MUT_LINES=60 tools/mutant.sh $patch $prop 2>&1)
  if [ "$kind" = S ]; then
    rules=$(echo "$res" | grep -o "rule=[A-Za-z0-9.]*" | sort -u | sed 's/rule=//' | tr '\n' ' ')
    if echo "$res" | grep -q "^VIOLATION property=$prop"; then det=yes; else det=NO; fi
    echo "S $name $prop detected=$det rules: $rules"
  else
    n=$(echo "$res" | grep -c "FAIL rule=")
    if echo "$res" | grep -q "^exit=0"; then echo "R $name quiet"; else echo "R $name ALARM ($n) $(echo "$res" | grep "FAIL rule=" | head -3 | cut -c1-160 | tr '\n' ';')"; fi
  fi
}
export -f worker
: > $OUT
cat $jobs | xargs -P $J -L 1 bash -c 'worker "$@"' _ >> $OUT
rm -f $jobs
echo "seeded: $(grep -c '^S .*detected=yes' $OUT) detected, $(grep -c '^S .*detected=NO' $OUT) missed; refactorings: $(grep -c '^R .* quiet' $OUT) quiet, $(grep -c '^R .* ALARM' $OUT) alarms"
