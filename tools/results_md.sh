#!/bin/bash
# usage: results_md.sh <regress output>  -- regenerates seeded/RESULTS.md from the "S ..." lines of tools/regress.sh
cd "$(dirname "$0")/.."
in=${1:-/tmp/regress.out}
{
  echo "| seeded change | property | detected by own check | rules that fired |"
  echo "|---|---|---|---|"
  grep '^S ' "$in" | sort -k2,2 | while read -r _ name prop det _ rules; do
    echo "| $name | $prop | ${det#detected=} | ${rules% } |"
  done
} > seeded/RESULTS.md
echo "$(grep -c '| yes |' seeded/RESULTS.md) detected of $(grep -c '^| [A-Za-z]' seeded/RESULTS.md | awk '{print $1-1}')"
