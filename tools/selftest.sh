#!/bin/bash
# Runs every seeded change in /verif/seeded against the check of the property it breaks
# (scratch copies of /repo; /repo itself is never modified).  Prints one line per change and
# writes seeded/RESULTS.md.  Exit 0 iff every confirmed change is detected by its own property's check.
cd "$(dirname "$0")/.."
[ -x bin/gsdcheck ] || ./setup.sh >/dev/null
declare -A PROP=( [revert-D1]=C03 [revert-D2]=C02 [revert-D3]=C04 [revert-D4]=C04 [revert-D5]=C04 [revert-D6]=C05 [revert-D7]=C11 [revert-D8]=C17 [revert-D9]=C16 [revert-D10]=C16 )
out=seeded/RESULTS.md
ONLY="$*"
[ -n "$ONLY" ] && out=/tmp/selftest_partial.$$.md
echo "| seeded change | property | detected by own check | rules that fired |" > $out
echo "|---|---|---|---|" >> $out
fail=0
run_one() {
  d=$1; name=$(basename $d)
  if [ -n "${PROP[$name]:-}" ]; then prop=${PROP[$name]}; else prop=${name%%-*}; fi
  res=$(MUT_LINES=40 tools/mutant.sh $d/patch.diff $prop 2>&1)
  rules=$(echo "$res" | grep -o "rule=[A-Z0-9.a-z]*" | sort -u | sed 's/rule=//' | tr '\n' ' ')
  if echo "$res" | grep -q "^VIOLATION property=$prop"; then det=yes; else det=NO; fi
  echo "$name|$prop|$det|$rules"
}
export -f run_one
export PROP
ls -d seeded/*/ | sed 's|/$||' | while read d; do
  [ -f $d/patch.diff ] || continue
  name=$(basename $d)
  if [ -n "${PROP[$name]:-}" ]; then prop=${PROP[$name]}; else prop=${name%%-*}; fi
  case "$prop" in W[0-9]) t=${name#W?-}; prop=${t%%-*};; esac
  if [ -n "$ONLY" ] && ! echo "$ONLY" | grep -qw "$prop"; then continue; fi
  res=$(MUT_LINES=60 tools/mutant.sh $d/patch.diff $prop 2>&1)
  rules=$(echo "$res" | grep -o "rule=[A-Za-z0-9.]*" | sort -u | sed 's/rule=//' | tr '\n' ' ')
  if echo "$res" | grep -q "^VIOLATION property=$prop"; then det=yes; else det=NO; fi
  echo "| $name | $prop | $det | $rules |" >> $out
  echo "$name $prop detected=$det rules: $rules"
done
if grep -q "| NO |" $out; then exit 1; fi
exit 0
